(* PrunedDTW as dtw.distance implements it (PyDist.distp_model: the rolling-buffer
   model WITH the sc / ec / ec_next / smaller_found / break bookkeeping) is exact:
   for every pair of series and every bound B it returns the unpruned
   specification value when that value is <= B, and inf otherwise.

   Guard: penalty >= 0, window >= 1, non-empty series, the empty alignment excluded.
   Begin relaxation is covered: the code (after the repair of finding F06) starts
   with ec = psi_2b and forgets sc while i <= psi_1b; without those two lines the
   statement is false (C03_begin_psi_refuted_old_bookkeeping).

   Proof idea.  Q x y := x = y \/ (x > B /\ y > B) relates a buffer cell x with the
   true matrix cell y.  Q is preserved by the cell update (costs are non-negative).
   A skipped cell holds inf, so it needs "the true cell is inf or > B" (big):
     - columns < sc : all cells of the previous row left of sc are big, hence
       (induction along the row, the border column being inf once i > psi_1b) so are
       those of this row;
     - columns after a break at j >= ec : the previous row is big from ec on and
       the cell at j is big, hence (induction along the row) so is the rest. *)
From Coq Require Import ZArith Bool List Lia.
From DV Require Import Prelude Cost Grid Dtw DtwSpec DtwFacts DtwProps Band BandTie PyDist PyDistProofs Prune.
Import ListNotations.
Open Scope Z_scope.

(* ------------------------------------------------------------ the relation Q *)
Section QRel.
Variable B : cost.
Definition gtB (x : cost) : Prop := cleb x B = false.
Definition big (x : cost) : Prop := x = Inf \/ gtB x.
Definition Q (x y : cost) : Prop := x = y \/ (gtB x /\ gtB y).

Lemma gtB_cle x y : gtB x -> cle x y -> gtB y.
Proof.
  unfold gtB. intros Hx Hxy. destruct (cleb y B) eqn:E; [|reflexivity]. exfalso.
  assert (H : cle x B) by (eapply cle_trans; [exact Hxy|exact E]). unfold cle in H. congruence.
Qed.

Lemma cle_inf_l y : cle Inf y -> y = Inf.
Proof. destruct y; [discriminate|reflexivity]. Qed.

Lemma big_cle x y : big x -> cle x y -> big y.
Proof.
  intros [->|H] Hxy; [left; apply cle_inf_l; exact Hxy|right; eapply gtB_cle; eauto].
Qed.

Lemma big_inf : big Inf.
Proof. left. reflexivity. Qed.

Lemma big_cmin x y : big x -> big y -> big (cmin x y).
Proof. intros Hx Hy. destruct (cmin_cases x y) as [E|E]; rewrite E; assumption. Qed.

Lemma big_cadd_l a x : cle (Fin 0) a -> big x -> big (cadd a x).
Proof. intros Ha Hx. eapply big_cle; [exact Hx|apply cle_cadd_nonneg; exact Ha]. Qed.

Lemma big_cadd_r a x : cle (Fin 0) a -> big x -> big (cadd x a).
Proof. intros Ha Hx. eapply big_cle; [exact Hx|apply cle_cadd_nonneg_r; exact Ha]. Qed.

Lemma big_code_cell pen dv a b c : 0 <= pen -> cle (Fin 0) dv -> big a -> big b -> big c ->
  big (code_cell pen dv a b c).
Proof.
  intros Hp Hd Ha Hb Hc. assert (HP : cle (Fin 0) (Fin pen)) by (apply cle_fin; exact Hp).
  unfold code_cell, cmin3. apply big_cadd_l; [exact Hd|].
  apply big_cmin; [apply big_cmin|]; auto using big_cadd_r.
Qed.

Lemma Q_refl x : Q x x.
Proof. left. reflexivity. Qed.

Lemma Q_gt x y : Q x y -> gtB x -> gtB y.
Proof. intros [->|[_ H]] Hx; assumption. Qed.

Lemma Q_le x y : Q x y -> cle x B -> x = y.
Proof. intros [H|[H _]] Hx; [exact H|]. unfold gtB, cle in *. congruence. Qed.

Lemma gtB_inf x : gtB x -> gtB Inf.
Proof. unfold gtB. destruct B; [reflexivity|]. destruct x; simpl; discriminate. Qed.

Lemma Q_inf y : big y -> Q Inf y.
Proof. intros [->|H]; [apply Q_refl|right; split; [eapply gtB_inf; exact H|exact H]]. Qed.

Lemma cle_of_le_gt x x' : cle x B -> gtB x' -> cle x x'.
Proof.
  intros Hx Hx'. destruct (cle_total x x') as [H|H]; [exact H|]. exfalso.
  assert (cle x' B) by (eapply cle_trans; eauto). unfold gtB, cle in *. congruence.
Qed.

Lemma gtB_cmin x y : gtB x -> gtB y -> gtB (cmin x y).
Proof. intros Hx Hy. destruct (cmin_cases x y) as [E|E]; rewrite E; assumption. Qed.

Lemma Q_cmin_eq_gt x x' y' : gtB x' -> gtB y' -> Q (cmin x x') (cmin x y').
Proof.
  intros Hx' Hy'. destruct (cleb x B) eqn:E.
  - left. unfold cmin. rewrite (cle_of_le_gt x x' E Hx'), (cle_of_le_gt x y' E Hy'). reflexivity.
  - right. split; apply gtB_cmin; assumption.
Qed.

Lemma Q_cmin x y x' y' : Q x y -> Q x' y' -> Q (cmin x x') (cmin y y').
Proof.
  intros [->|[Hx Hy]] [->|[Hx' Hy']].
  - apply Q_refl.
  - apply Q_cmin_eq_gt; assumption.
  - rewrite (cmin_comm x y'), (cmin_comm y y'). apply Q_cmin_eq_gt; assumption.
  - right. split; apply gtB_cmin; assumption.
Qed.

Lemma Q_cadd_l a x y : cle (Fin 0) a -> Q x y -> Q (cadd a x) (cadd a y).
Proof.
  intros Ha [->|[Hx Hy]]; [apply Q_refl|right].
  split; [apply (gtB_cle x); [exact Hx|]|apply (gtB_cle y); [exact Hy|]]; apply cle_cadd_nonneg; exact Ha.
Qed.

Lemma Q_cadd_r a x y : cle (Fin 0) a -> Q x y -> Q (cadd x a) (cadd y a).
Proof. intros Ha H. rewrite (cadd_comm x a), (cadd_comm y a). apply Q_cadd_l; assumption. Qed.

Lemma Q_code_cell pen dv a a' b b' c c' : 0 <= pen -> cle (Fin 0) dv -> Q a a' -> Q b b' -> Q c c' ->
  Q (code_cell pen dv a b c) (code_cell pen dv a' b' c').
Proof.
  intros Hp Hd Ha Hb Hc. assert (HP : cle (Fin 0) (Fin pen)) by (apply cle_fin; exact Hp).
  unfold code_cell, cmin3. apply Q_cadd_l; [exact Hd|].
  apply Q_cmin; [apply Q_cmin|]; auto using Q_cadd_r.
Qed.

Lemma Q_cmin_list l l' : Forall2 Q l l' -> Q (cmin_list l) (cmin_list l').
Proof. induction 1 as [|x y l l' Hxy _ IH]; simpl; [apply Q_refl|apply Q_cmin; assumption]. Qed.

(* the final "if d > max_dist: d = inf" *)
Lemma Q_bounded x y : Q x y -> (if negb (cleb x B) then Inf else x) = bounded B y.
Proof.
  intros H. unfold bounded. destruct (cleb x B) eqn:E; cbn [negb].
  - rewrite <- (Q_le x y H E). rewrite E. reflexivity.
  - assert (Hy : gtB y) by (eapply Q_gt; [exact H|exact E]). unfold gtB in Hy. rewrite Hy. reflexivity.
Qed.
End QRel.

(* ------------------------------------------------------------ the refinement *)
Section PruneRefine.
Variable u : usettings.
Variables s1 s2 : list point.
Variable B : cost.
Local Notation r := (length s1).
Local Notation c := (length s2).
Hypothesis Hw : 1 <= eff_window u r c.
Hypothesis Hr : (1 <= r)%nat.
Hypothesis Hc : (1 <= c)%nat.
Hypothesis Hpen : pen_ok u.
Hypothesis Hpsi : (psi_1b u < r)%nat \/ (psi_2e u < c)%nat.

Local Notation LL := (L u s1 s2).
Local Notation sk := (skip_of u s1 s2).
Local Notation jS := (js u s1 s2).
Local Notation jE := (je u s1 s2).
Local Notation M := (Mfun u s1 s2).
Local Notation Qb := (Q B).
Local Notation bigb := (big B).
Local Notation wsk := (wskip u s1 s2).
Local Notation wl := (wlo u s1 s2).
Local Notation wh := (whi u s1 s2).

Lemma pen_nonneg : 0 <= adj_penalty u.
Proof. apply adj_penalty_nonneg. exact Hpen. Qed.

Lemma M_S_0 a : (psi_1b u <= a)%nat -> M (S a) 0 = Inf.
Proof.
  intros H. unfold Mfun. rewrite Mf_S_0. unfold b1. destruct (Nat.leb_spec (S a) (psi_1b u)); [lia|reflexivity].
Qed.

Lemma M_S_0_zero a : (a < psi_1b u)%nat -> M (S a) 0 = Fin 0.
Proof.
  intros H. unfold Mfun. rewrite Mf_S_0. unfold b1. destruct (Nat.leb_spec (S a) (psi_1b u)); [reflexivity|lia].
Qed.

Lemma M_0_S col : (psi_2b u <= col)%nat -> M 0 (S col) = Inf.
Proof.
  intros H. unfold Mfun. rewrite Mf_0. unfold b0. destruct (Nat.leb_spec (S col) (psi_2b u)); [lia|reflexivity].
Qed.

Lemma M_step a j : M (S a) (S j) = code_cell (adj_penalty u) (cell u s1 s2 a j) (M a j) (M a (S j)) (M (S a) j).
Proof. apply M_S_S. Qed.

Lemma big_step a j : bigb (M a j) -> bigb (M a (S j)) -> bigb (M (S a) j) -> bigb (M (S a) (S j)).
Proof.
  intros H1 H2 H3. rewrite M_step. apply big_code_cell; auto; [apply pen_nonneg|apply cell_nonneg].
Qed.

(* all cells of matrix row a in columns 1..s are big / all cells from column e+1 on are big *)
Definition SInv (a s : nat) : Prop := forall col, (1 <= col <= s)%nat -> bigb (M a col).
Definition EInv (a e : nat) : Prop := forall col, (e + 1 <= col)%nat -> bigb (M a col).

Lemma S_next a s : (psi_1b u <= a)%nat -> SInv (S a) s -> SInv (S (S a)) s.
Proof.
  intros Hp H. assert (G : forall col, (col <= s)%nat -> bigb (M (S (S a)) col)).
  { induction col as [|col IH]; intros Hc0; [rewrite M_S_0 by lia; apply big_inf|].
    apply big_step; [|apply H; lia|apply IH; lia].
    destruct col as [|col]; [rewrite M_S_0 by lia; apply big_inf|apply H; lia]. }
  intros col Hcol. apply G. lia.
Qed.

Lemma E_break a e j : EInv a e -> (e <= j)%nat -> bigb (M (S a) (S j)) ->
  forall col, (S j <= col)%nat -> bigb (M (S a) col).
Proof.
  intros HE Hej Hj col Hcol. induction col as [|col IH]; [lia|].
  destruct (Nat.eq_dec col j) as [->|Hne]; [exact Hj|].
  apply big_step; [apply HE; lia|apply HE; lia|apply IH; lia].
Qed.

(* ------------------------------------------------------------ buffer rows *)
Definition PRowOK (a : nat) (row : list cost) : Prop :=
  length row = LL /\
  forall q, (q < LL)%nat ->
    if (wl a <=? q + wsk a)%nat && (q + wsk a <=? wh a)%nat then Qb (rget row q) (M a (q + wsk a))
    else rget row q = Inf.

Lemma prow_init_ok : PRowOK 0 (row_init u s1 s2).
Proof.
  destruct (row_init_ok u s1 s2 Hr Hc) as [Hl Hq]. split; [exact Hl|].
  intros q Hq'. specialize (Hq q Hq').
  destruct ((wl 0 <=? q + wsk 0)%nat && (q + wsk 0 <=? wh 0)%nat); [rewrite Hq; apply Q_refl|exact Hq].
Qed.

Section OneRow.
Variable i : nat.
Hypothesis Hi : (i < r)%nat.
Variable prev : list cost.
Hypothesis Hprev : PRowOK i prev.
Variables sc ec : nat.                    (* sc: AFTER the "if i <= psi_1b: sc = 0" of the code *)
Hypothesis HS : SInv (S i) sc.
Hypothesis Hreset : (i <= psi_1b u)%nat -> sc = 0%nat.
Hypothesis HE : EInv i ec.

Let j0 := Nat.max (jS i) sc.

Lemma pprev_read k : (wsk i <= k)%nat -> (k - wsk i < LL)%nat ->
  ((wl i <= k <= wh i)%nat \/ M i k = Inf) ->
  Qb (rget prev (k - wsk i)) (M i k).
Proof.
  intros H1 H2 H3. destruct Hprev as [_ Hp]. specialize (Hp _ H2).
  replace (k - wsk i + wsk i)%nat with k in Hp by lia.
  destruct ((wl i <=? k)%nat && (k <=? wh i)%nat) eqn:E; [exact Hp|].
  rewrite Hp. destruct H3 as [H3|H3]; [|rewrite H3; apply Q_refl].
  exfalso. apply andb_false_iff in E. destruct E as [E|E]; apply Nat.leb_gt in E; lia.
Qed.

Definition PCurOK (j : nat) (cur : list cost) : Prop :=
  forall q, (q < LL)%nat ->
    if (jS i <=? q + sk i)%nat && (q + sk i <=? j)%nat then Qb (rget cur q) (M (S i) (q + sk i))
    else rget cur q = Inf.

(* everything up to the first processed column is big *)
Lemma all_big0 col : (1 <= col <= j0)%nat -> bigb (M (S i) col).
Proof.
  intros Hcol. destruct col as [|col]; [lia|].
  destruct (Nat.le_gt_cases (S col) sc) as [Hle|Hgt]; [apply HS; lia|].
  left. apply (M_out u s1 s2 Hw Hr Hc i col Hi). unfold j0 in Hcol. lia.
Qed.

(* the row as the code prepares it: inf everywhere, 0 in the border cell while the begin of series 1 is relaxed *)
Definition cur1 : list cost :=
  if negb (psi_1b u =? 0)%nat && (j0 =? 0)%nat && (i <? psi_1b u)%nat then upd_nat (repeat Inf LL) 0 (Fin 0)
  else repeat Inf LL.

Lemma cur1_length : length cur1 = LL.
Proof. unfold cur1. destruct (_ && _ && _); [rewrite upd_nat_length|]; apply repeat_length. Qed.

Lemma pcur_inf j : (j <= j0)%nat -> PCurOK j cur1.
Proof.
  intros Hj q Hq.
  destruct (geom_row u s1 s2 Hw Hr Hc i Hi) as (G1 & G2 & G3 & G4 & G5).
  assert (Hval : rget cur1 q = (if (q =? 0)%nat && negb (psi_1b u =? 0)%nat && (j0 =? 0)%nat && (i <? psi_1b u)%nat
                               then Fin 0 else Inf)).
  { unfold cur1, rget.
    destruct (negb (psi_1b u =? 0)%nat) eqn:C1a; destruct (j0 =? 0)%nat eqn:C1b; destruct (i <? psi_1b u)%nat eqn:C1c;
      rewrite ?andb_true_r, ?andb_false_r; cbn [andb];
      try (rewrite nth_repeat_inf; reflexivity).
    destruct q as [|q]; cbn [Nat.eqb].
    - apply nth_upd_nat_eq. rewrite repeat_length. lia.
    - rewrite nth_upd_nat_neq by lia. apply nth_repeat_inf. }
  rewrite Hval. clear Hval.
  destruct ((q =? 0)%nat && negb (psi_1b u =? 0)%nat && (j0 =? 0)%nat && (i <? psi_1b u)%nat) eqn:C2.
  - (* the zero border cell: column 0, in range, and the matrix has 0 there *)
    apply andb_true_iff in C2. destruct C2 as [C2 C4]. apply andb_true_iff in C2. destruct C2 as [C2 C3].
    apply andb_true_iff in C2. destruct C2 as [C2 _].
    apply Nat.eqb_eq in C2. apply Nat.eqb_eq in C3. apply Nat.ltb_lt in C4. subst q.
    assert (jS i = 0)%nat by (unfold j0 in C3; lia). assert (sk i = 0)%nat by lia.
    replace (0 + sk i)%nat with 0%nat by lia.
    assert (E : ((jS i <=? 0)%nat && (0 <=? j)%nat) = true) by (apply andb_true_iff; split; apply Nat.leb_le; lia).
    rewrite E. rewrite M_S_0_zero by exact C4. apply Q_refl.
  - destruct ((jS i <=? q + sk i)%nat && (q + sk i <=? j)%nat) eqn:E; [|reflexivity].
    apply andb_true_iff in E. destruct E as [E1 E2]. apply Nat.leb_le in E1. apply Nat.leb_le in E2.
    apply Q_inf. destruct (Nat.eq_dec (q + sk i) 0) as [Z|NZ]; [|apply all_big0; lia].
    (* column 0 in range but not set to 0: then the matrix has inf there *)
    rewrite Z. left. apply M_S_0.
    destruct (Nat.le_gt_cases (psi_1b u) i) as [Hle|Hgt]; [exact Hle|exfalso].
    assert (sc = 0)%nat by (apply Hreset; lia).
    assert (C : ((q =? 0)%nat && negb (psi_1b u =? 0)%nat && (j0 =? 0)%nat && (i <? psi_1b u)%nat) = true).
    { repeat (apply andb_true_iff; split).
      - apply Nat.eqb_eq; lia.
      - apply negb_true_iff. apply Nat.eqb_neq. lia.
      - apply Nat.eqb_eq. unfold j0. lia.
      - apply Nat.ltb_lt. exact Hgt. }
    congruence.
Qed.

Lemma pcur_upd j cur v : (jS i <= j < jE i)%nat -> length cur = LL -> PCurOK j cur ->
  Qb v (M (S i) (S j)) -> PCurOK (S j) (upd_nat cur (j + 1 - sk i) v).
Proof.
  intros Hj Hlen Hcur Hv q Hq.
  destruct (geom_row u s1 s2 Hw Hr Hc i Hi) as (G1 & G2 & G3 & G4 & G5).
  destruct (Nat.eq_dec q (j + 1 - sk i)) as [->|Hne].
  - unfold rget. rewrite nth_upd_nat_eq by lia. replace (j + 1 - sk i + sk i)%nat with (S j) by lia.
    assert (E : ((jS i <=? S j)%nat && (S j <=? S j)%nat) = true) by (apply andb_true_iff; split; apply Nat.leb_le; lia).
    rewrite E. exact Hv.
  - unfold rget. rewrite nth_upd_nat_neq by lia. fold (rget cur q). specialize (Hcur q Hq).
    destruct (Nat.leb_spec (jS i) (q + sk i)); destruct (Nat.leb_spec (q + sk i) j);
      destruct (Nat.leb_spec (q + sk i) (S j)); cbn [andb] in *; try exact Hcur; try lia.
Qed.

(* the row stays as it is and the true cell is inf (d > max_step) *)
Lemma pcur_skip j cur : (jS i <= j < jE i)%nat -> PCurOK j cur -> M (S i) (S j) = Inf -> PCurOK (S j) cur.
Proof.
  intros Hj Hcur HM q Hq. specialize (Hcur q Hq).
  destruct (Nat.eq_dec (q + sk i) (S j)) as [Eq|Hne].
  - rewrite Eq in *.
    assert (E1 : ((jS i <=? S j)%nat && (S j <=? j)%nat) = false)
      by (apply andb_false_iff; right; apply Nat.leb_gt; lia).
    assert (E2 : ((jS i <=? S j)%nat && (S j <=? S j)%nat) = true)
      by (apply andb_true_iff; split; apply Nat.leb_le; lia).
    rewrite E1 in Hcur. rewrite E2, Hcur, HM. apply Q_refl.
  - destruct (Nat.leb_spec (jS i) (q + sk i)); destruct (Nat.leb_spec (q + sk i) j);
      destruct (Nat.leb_spec (q + sk i) (S j)); cbn [andb] in *; try exact Hcur; try lia.
Qed.

(* from PCurOK j to PCurOK (jE i) when everything after j is big and untouched *)
Lemma pcur_extend j cur : (j <= jE i)%nat -> PCurOK j cur -> (forall col, (j < col)%nat -> bigb (M (S i) col)) ->
  PCurOK (jE i) cur.
Proof.
  intros Hj Hcur Hbig q Hq. specialize (Hcur q Hq).
  destruct (Nat.leb_spec (jS i) (q + sk i)); destruct (Nat.leb_spec (q + sk i) j);
    destruct (Nat.leb_spec (q + sk i) (jE i)); cbn [andb] in *; try exact Hcur; try lia.
  rewrite Hcur. apply Q_inf. apply Hbig. lia.
Qed.

Record LInv (j : nat) (st : pst) : Prop := {
  li_len : length (p_cur st) = LL;
  li_sc : SInv (S i) (p_sc st);
  li_run : p_stop st = false ->
    PCurOK j (p_cur st) /\
    (p_smaller st = false -> forall col, (1 <= col <= j)%nat -> bigb (M (S i) col)) /\
    (forall col, (p_ecn st + 1 <= col <= j)%nat -> bigb (M (S i) col));
  li_stop : p_stop st = true -> PCurOK (jE i) (p_cur st) /\ EInv (S i) (p_ecn st) }.

Lemma out_big col : (jE i < col)%nat -> bigb (M (S i) col).
Proof.
  intros H. destruct col as [|col]; [lia|]. left. apply (M_out u s1 s2 Hw Hr Hc i col Hi). lia.
Qed.

Lemma pstep_ok j st : (j0 <= j < jE i)%nat -> LInv j st ->
  LInv (S j) (pstep u s1 s2 B i (wsk i) (sk i) prev ec st j).
Proof.
  intros Hj0 [Hlen Hsc Hrun Hstop]. unfold pstep.
  destruct (p_stop st) eqn:Est.
  { (* after the break nothing changes *)
    constructor; [exact Hlen|exact Hsc|intros F; congruence|intros _; apply Hstop; reflexivity]. }
  destruct (Hrun eq_refl) as (Hcur & Hnos & Hecn). clear Hrun Hstop.
  assert (Hj : (jS i <= j < jE i)%nat) by (unfold j0 in Hj0; lia).
  destruct (geom_row u s1 s2 Hw Hr Hc i Hi) as (G1 & G2 & G3 & G4 & G5).
  pose proof (M_step i j) as HM. rewrite (cell_in u s1 s2 Hw Hr Hc i j Hi Hj) in HM.
  destruct (cleb (Fin (pdist (u_inner u) (nth i s1 []) (nth j s2 []))) (adj_max_step u)) eqn:Ems; cbn [negb].
  2:{ (* continue: the cell keeps its inf, and the true cell is inf as well *)
      assert (HI : M (S i) (S j) = Inf) by (rewrite HM; reflexivity).
      constructor; [exact Hlen|exact Hsc| |intros F; congruence].
      intros _. split; [apply pcur_skip; assumption|]. split.
      - intros Hs col Hcol. destruct (Nat.eq_dec col (S j)) as [->|Hne]; [rewrite HI; apply big_inf|apply Hnos; [exact Hs|lia]].
      - intros col Hcol. destruct (Nat.eq_dec col (S j)) as [->|Hne]; [rewrite HI; apply big_inf|apply Hecn; lia]. }
  (* the cell is computed: the three reads are Q-related to the true neighbours *)
  destruct (prev_geom u s1 s2 Hw Hr Hc i j Hi Hj) as (Q1 & Q2 & Q3 & Q4).
  assert (Rd : Qb (rget prev (j - wsk i)) (M i j)) by (apply pprev_read; [lia|lia|left; exact Q3]).
  assert (Ru : Qb (rget prev (j + 1 - wsk i)) (M i (S j))).
  { replace (j + 1)%nat with (S j) by lia. apply pprev_read; [lia|lia|exact Q4]. }
  assert (Rl : Qb (rget (p_cur st) (j - sk i)) (M (S i) j)).
  { pose proof (Hcur (j - sk i)%nat ltac:(lia)) as H. replace (j - sk i + sk i)%nat with j in H by lia.
    assert (E : ((jS i <=? j)%nat && (j <=? j)%nat) = true) by (apply andb_true_iff; split; apply Nat.leb_le; lia).
    rewrite E in H. exact H. }
  set (dv := Fin (pdist (u_inner u) (nth i s1 []) (nth j s2 []))) in *.
  set (v := code_cell (adj_penalty u) dv (rget prev (j - wsk i)) (rget prev (j + 1 - wsk i)) (rget (p_cur st) (j - sk i))).
  assert (Hv : Qb v (M (S i) (S j))).
  { rewrite HM. apply Q_code_cell; auto; [apply pen_nonneg|apply cle_fin; apply pdist_nonneg]. }
  assert (Hupd : PCurOK (S j) (upd_nat (p_cur st) (j + 1 - sk i) v)) by (apply pcur_upd; assumption).
  destruct (cleb v B) eqn:EvB; cbn [negb].
  - (* v <= B : smaller_found, ec_next = j + 1 *)
    constructor; cbn [p_cur p_sc p_smaller p_ecn p_stop];
      [rewrite upd_nat_length; exact Hlen|exact Hsc| |intros F; discriminate].
    intros _. split; [exact Hupd|]. split; [intros F; discriminate|intros col Hcol; lia].
  - (* v > B *)
    assert (Hbig : bigb (M (S i) (S j))) by (right; eapply Q_gt; [exact Hv|exact EvB]).
    constructor; cbn [p_cur p_sc p_smaller p_ecn p_stop].
    + rewrite upd_nat_length; exact Hlen.
    + destruct (p_smaller st) eqn:Es; [exact Hsc|].
      intros col Hcol. destruct (Nat.eq_dec col (S j)) as [->|Hne]; [exact Hbig|apply Hnos; [reflexivity|lia]].
    + intros Hns. split; [exact Hupd|]. split.
      * intros Hs col Hcol. destruct (Nat.eq_dec col (S j)) as [->|Hne]; [exact Hbig|apply Hnos; [exact Hs|lia]].
      * intros col Hcol. destruct (Nat.eq_dec col (S j)) as [->|Hne]; [exact Hbig|apply Hecn; lia].
    + (* break: j >= ec *)
      intros Hbr. apply Nat.leb_le in Hbr.
      pose proof (E_break i ec j HE Hbr Hbig) as Hrest.
      split.
      * apply (pcur_extend (S j)); [lia|exact Hupd|intros col Hcol; apply Hrest; lia].
      * intros col Hcol. destruct (Nat.le_gt_cases col j) as [Hle|Hgt]; [apply Hecn; lia|apply Hrest; lia].
Qed.

Lemma pfold_ok : forall n j st, (j0 <= j)%nat -> (j + n <= jE i)%nat -> LInv j st ->
  LInv (j + n) (fold_left (pstep u s1 s2 B i (wsk i) (sk i) prev ec) (seq j n) st).
Proof.
  induction n as [|n IH]; intros j st H1 H2 H; simpl; [rewrite Nat.add_0_r; exact H|].
  replace (j + S n)%nat with (S j + n)%nat by lia. apply IH; [lia|lia|]. apply pstep_ok; [lia|exact H].
Qed.

Lemma prow_step_ok sc0 : sc = (if (i <=? psi_1b u)%nat then 0%nat else sc0) ->
  let '(cur, sc', ec') := prow_step u s1 s2 B i (wsk i) prev sc0 ec in
  PRowOK (S i) cur /\ SInv (S i) sc' /\ EInv (S i) ec'.
Proof.
  intros Esc.
  destruct (geom_row u s1 s2 Hw Hr Hc i Hi) as (G1 & G2 & G3 & G4 & G5).
  unfold prow_step. rewrite <- Esc. fold j0. fold cur1.
  set (st0 := {| p_cur := cur1; p_sc := sc; p_smaller := false; p_ecn := i; p_stop := false |}).
  assert (H0 : LInv j0 st0).
  { constructor; cbn [p_cur p_sc p_smaller p_ecn p_stop]; [apply cur1_length|exact HS| |intros F; discriminate].
    intros _. split; [apply pcur_inf; lia|]. split; intros; apply all_big0; lia. }
  destruct (Nat.le_gt_cases (jE i) j0) as [Hge|Hlt].
  - (* nothing to compute in this row *)
    replace (jE i - j0)%nat with 0%nat by lia. cbn [seq fold_left]. cbn [p_cur p_sc p_ecn st0].
    split; [|split; [exact HS|]].
    + split; [apply cur1_length|]. intros q Hq. cbn [wlo whi wskip].
      apply (pcur_inf (jE i)); [exact Hge|exact Hq].
    + intros col Hcol. destruct (Nat.le_gt_cases col j0); [apply all_big0; lia|apply out_big; lia].
  - pose proof (pfold_ok (jE i - j0) j0 st0 (le_n _) ltac:(lia) H0) as HL.
    replace (j0 + (jE i - j0))%nat with (jE i) in HL by lia.
    set (st := fold_left (pstep u s1 s2 B i (wsk i) (sk i) prev ec) (seq j0 (jE i - j0)) st0) in *.
    destruct HL as [Hlen Hsc Hrun Hstop].
    assert (Hfin : PCurOK (jE i) (p_cur st) /\ EInv (S i) (p_ecn st)).
    { destruct (p_stop st) eqn:Es; [apply Hstop; reflexivity|].
      destruct (Hrun eq_refl) as (Hcur & _ & Hecn). split; [exact Hcur|].
      intros col Hcol. destruct (Nat.le_gt_cases col (jE i)); [apply Hecn; lia|apply out_big; lia]. }
    destruct Hfin as [Hcur HEn].
    split; [|split; [exact Hsc|exact HEn]].
    split; [exact Hlen|]. intros q Hq. cbn [wlo whi wskip]. apply Hcur. exact Hq.
Qed.
End OneRow.

(* ------------------------------------------------------------ all rows *)
Lemma prows_ok : forall n, (n <= r)%nat ->
  let '(cur, skv, ps, sc, ec) := prows u s1 s2 B n in
  PRowOK n cur /\ skv = wsk n /\ Qb ps (ps_spec u s1 s2 n) /\ ((psi_1b u < n)%nat -> SInv (S n) sc) /\ EInv n ec.
Proof.
  induction n as [|i IH]; intros Hn.
  - cbn [prows]. split; [apply prow_init_ok|]. split; [reflexivity|]. split; [apply Q_refl|].
    split; [intros _ col Hcol; lia|]. intros col Hcol. destruct col as [|col]; [lia|]. rewrite M_0_S by lia. apply big_inf.
  - specialize (IH ltac:(lia)). cbn [prows].
    destruct (prows u s1 s2 B i) as [[[[prev skp] ps] sc] ec].
    destruct IH as (Hp & Hs & Hps & HS & HE). subst skp.
    assert (Hi : (i < r)%nat) by lia.
    set (sce := if (i <=? psi_1b u)%nat then 0%nat else sc).
    assert (HSe : SInv (S i) sce).
    { unfold sce. destruct (Nat.leb_spec i (psi_1b u)); [intros col Hcol; lia|apply HS; lia]. }
    assert (Hres : (i <= psi_1b u)%nat -> sce = 0%nat).
    { intros H. unfold sce. destruct (Nat.leb_spec i (psi_1b u)); [reflexivity|lia]. }
    pose proof (prow_step_ok i Hi prev Hp sce ec HSe Hres HE sc eq_refl) as Hrow.
    destruct (prow_step u s1 s2 B i (wsk i) prev sc ec) as [[cur sc'] ec'].
    destruct Hrow as (Hrow & HS' & HE').
    split; [exact Hrow|]. split; [reflexivity|]. split; [|split; [intros Hlt; apply S_next; [lia|exact HS']|exact HE']].
    cbn [ps_spec].
    destruct (negb (psi_1e u =? 0)%nat && (jE i =? c)%nat && (r - 1 - i <=? psi_1e u)%nat) eqn:Bc; [|exact Hps].
    apply Q_cmin; [exact Hps|].
    destruct Hrow as [_ Hq]. destruct (geom_row u s1 s2 Hw Hr Hc i Hi) as (G1 & G2 & G3 & G4 & G5).
    apply andb_true_iff in Bc. destruct Bc as [Bc _]. apply andb_true_iff in Bc. destruct Bc as [_ Bc].
    apply Nat.eqb_eq in Bc.
    specialize (Hq (jE i - sk i)%nat ltac:(lia)). cbn [wlo whi wskip] in Hq.
    replace (jE i - sk i + sk i)%nat with (jE i) in Hq by lia.
    assert (E : ((jS i <=? jE i)%nat && (jE i <=? jE i)%nat) = true) by (apply andb_true_iff; split; apply Nat.leb_le; lia).
    rewrite E in Hq. rewrite Bc in Hq |- *. exact Hq.
Qed.

(* ------------------------------------------------------------ the value *)
Lemma cells_Q (cur curM : list cost) : (forall q, (q < LL)%nat -> Qb (rget cur q) (rget curM q)) ->
  forall n lo, (lo + n <= LL)%nat -> Forall2 Qb (map (rget cur) (seq lo n)) (map (rget curM) (seq lo n)).
Proof.
  intros Hcell. induction n as [|n IH]; intros lo Hb; simpl; [constructor|].
  constructor; [apply Hcell; lia|apply IH; lia].
Qed.

Lemma final_value_Q cur curM ps psM :
  PRowOK r cur -> RowOK u s1 s2 r curM -> Qb ps psM ->
  Qb (final_value u s2 cur (wsk r) ps) (final_value u s2 curM (wsk r) psM).
Proof.
  intros [Hl Hq] [HlM HqM] Hps.
  assert (Ei : S (r - 1) = r) by lia.
  destruct (geom_row u s1 s2 Hw Hr Hc (r - 1)%nat ltac:(lia)) as (G1 & G2 & G3 & G4 & G5).
  pose proof (geom_last u s1 s2 Hw Hr Hc) as GL.
  assert (Ews : wsk r = sk (r - 1)) by (rewrite <- Ei at 1; reflexivity).
  assert (Hcell : forall q, (q < LL)%nat -> Qb (rget cur q) (rget curM q)).
  { intros q Hq0. specialize (Hq q Hq0). specialize (HqM q Hq0). rewrite HqM.
    destruct ((wl r <=? q + wsk r)%nat && (q + wsk r <=? wh r)%nat); [exact Hq|rewrite Hq; apply Q_refl]. }
  unfold final_value. cbv zeta.
  assert (Hic : (c - wsk r < LL)%nat) by (rewrite Ews; lia).
  destruct ((psi_1e u =? 0)%nat && (psi_2e u =? 0)%nat); [apply Hcell; exact Hic|].
  destruct (negb (psi_2e u =? 0)%nat).
  - apply Q_cmin; [|exact Hps]. unfold slice_min. apply Q_cmin_list.
    apply cells_Q; [exact Hcell|]. lia.
  - apply Q_cmin; [apply Hcell; exact Hic|exact Hps].
Qed.

Theorem distp_value_is_bounded : distp_value u s1 s2 B = bounded B (dtw_value u s1 s2).
Proof.
  unfold distp_value.
  pose proof (prows_ok r (le_n _)) as HP. destruct (prows u s1 s2 B r) as [[[[cur skv] ps] sc] ec].
  destruct HP as (Hrow & Hs & Hps & _ & _). subst skv.
  pose proof (rows_ok u s1 s2 Hw Hr Hc r (le_n _)) as HR. destruct (rows u s1 s2 r) as [[curM skM] psM].
  destruct HR as (HrowM & HsM & HpsM). subst psM.
  cbv zeta. apply Q_bounded.
  rewrite <- (final_value_spec u s1 s2 Hw Hr Hc Hpsi curM HrowM).
  apply final_value_Q; assumption.
Qed.

(* dtw.distance with early abandoning = the unpruned specification value cut at the bound *)
Theorem distp_model_is_bounded_model :
  distp_model u s1 s2 B = (if too_long u s1 s2 then Inf else bounded B (dtw_value u s1 s2)).
Proof. unfold distp_model. rewrite distp_value_is_bounded. reflexivity. Qed.

End PruneRefine.
