(* best_path: tracing an optimal warping path back through the accumulated-cost
   matrix.  Model of dtw.best_path (first minimum of [diag, up+pen, left+pen])
   and the theorem that the traced path is well formed, stays on finite
   (hence in-band) cells and costs exactly the value of the start cell. *)
From Coq Require Import ZArith Bool List Lia.
From DV Require Import Prelude Cost Grid Dtw DtwSpec DtwProps.
Import ListNotations.
Open Scope Z_scope.

Section TB.
Variable A : nat -> nat -> cost.      (* accessor of the matrix being traced *)
Variable pen : Z.

(* np.argmin([A[i-1,j-1], A[i-1,j]+pen, A[i,j-1]+pen]) : first minimum *)
Definition pick (i j : nat) : step :=
  let a := A i j in let b := cadd (A i (S j)) (Fin pen) in let c := cadd (A (S i) j) (Fin pen) in
  if cleb a b then (if cleb a c then SD else SL) else (if cleb b c then SU else SL).

Fixpoint tb (fuel i j : nat) : list step :=
  match fuel with
  | O => []
  | S f =>
    match i, j with
    | S i', S j' =>
      let s := pick i' j' in
      s :: match s with SD => tb f i' j' | SU => tb f i' (S j') | SL => tb f (S i') j' end
    | _, _ => []
    end
  end.
End TB.

Lemma tb_ext A B pen r c : (forall i j, (i <= r)%nat -> (j <= c)%nat -> A i j = B i j) ->
  forall fuel i j, (i <= r)%nat -> (j <= c)%nat -> tb A pen fuel i j = tb B pen fuel i j.
Proof.
  intros H. induction fuel as [|f IH]; intros i j Hi Hj; [reflexivity|].
  destruct i as [|i]; [reflexivity|]. destruct j as [|j]; [reflexivity|].
  cbn [tb]. assert (E : pick A pen i j = pick B pen i j).
  { unfold pick. rewrite !H by lia. reflexivity. }
  rewrite E. f_equal. destruct (pick B pen i j); apply IH; lia.
Qed.

Section TBM.
Variable d : nat -> nat -> cost.
Variable pen : Z.
Variables p1b p2b : nat.
Let M := Mf d pen p1b p2b.

Lemma min3_is a b c x : (x = a \/ x = b \/ x = c) -> cle x a -> cle x b -> cle x c -> cmin3 a b c = x.
Proof.
  intros Hx Ha Hb Hc. apply cle_antisym.
  - unfold cmin3. destruct Hx as [-> | [-> | ->]].
    + eapply cle_trans; [apply cmin_l|apply cmin_l].
    + eapply cle_trans; [apply cmin_l|apply cmin_r].
    + apply cmin_r.
  - unfold cmin3. repeat apply cmin_glb; assumption.
Qed.

Lemma cleb_false_le a b : cleb a b = false -> cle b a.
Proof. intros H. apply cleb_false_lt in H. tauto. Qed.

(* the cell value is its point cost plus the predecessor value the traceback picks *)
Lemma pick_value i j :
  M (S i) (S j) =
  match pick M pen i j with
  | SD => cadd (M i j) (d i j)
  | SU => cadd (M i (S j)) (cadd (Fin pen) (d i j))
  | SL => cadd (M (S i) j) (cadd (Fin pen) (d i j))
  end.
Proof.
  unfold M. rewrite Mf_S_S. fold M. unfold code_cell, pick.
  set (a := M i j). set (b := cadd (M i (S j)) (Fin pen)). set (c := cadd (M (S i) j) (Fin pen)).
  assert (Eb : cadd (M i (S j)) (cadd (Fin pen) (d i j)) = cadd (d i j) b)
    by (unfold b; rewrite cadd_assoc; apply cadd_comm).
  assert (Ec : cadd (M (S i) j) (cadd (Fin pen) (d i j)) = cadd (d i j) c)
    by (unfold c; rewrite cadd_assoc; apply cadd_comm).
  destruct (cleb a b) eqn:Hab; [destruct (cleb a c) eqn:Hac|destruct (cleb b c) eqn:Hbc].
  - rewrite (min3_is a b c a); auto using cle_refl. apply cadd_comm.
  - apply cleb_false_le in Hac. rewrite (min3_is a b c c); auto using cle_refl.
    eapply cle_trans; [exact Hac|exact Hab].
  - apply cleb_false_le in Hab. rewrite (min3_is a b c b); auto using cle_refl.
  - apply cleb_false_le in Hab. apply cleb_false_le in Hbc. rewrite (min3_is a b c c); auto using cle_refl.
    eapply cle_trans; [exact Hbc|exact Hab].
Qed.

Theorem tb_cost : forall fuel i j, (i + j <= fuel)%nat ->
  path_cost d pen p1b p2b i j (tb M pen fuel i j) = Some (M i j).
Proof.
  induction fuel as [|f IH]; intros i j H.
  - assert (i = 0%nat) by lia. assert (j = 0%nat) by lia. subst. reflexivity.
  - destruct i as [|i]; [reflexivity|]. destruct j as [|j]; [reflexivity|].
    cbn [tb]. unfold path_cost. cbn [pcost]. rewrite (pick_value i j).
    destruct (pick M pen i j); fold (path_cost d pen p1b p2b); rewrite IH by lia; reflexivity.
Qed.

Theorem tb_length : forall fuel i j, (length (tb M pen fuel i j) <= i + j)%nat.
Proof.
  induction fuel as [|f IH]; intros i j; [simpl; lia|].
  destruct i as [|i]; [simpl; lia|]. destruct j as [|j]; [simpl; lia|].
  cbn [tb length]. destruct (pick M pen i j).
  - specialize (IH i j). lia.
  - specialize (IH i (S j)). lia.
  - specialize (IH (S i) j). lia.
Qed.

(* every cell on the traced path (border cell included) carries a finite value
   as soon as the start cell does: the path never leaves the band and ends in
   the psi-relaxed part of the border *)
Theorem tb_cells_finite : forall fuel i j, (i + j <= fuel)%nat -> M i j <> Inf ->
  forall ab, In ab (pcells i j (tb M pen fuel i j)) -> M (fst ab) (snd ab) <> Inf.
Proof.
  induction fuel as [|f IH]; intros i j H Hfin ab Hin.
  - assert (i = 0%nat) by lia. assert (j = 0%nat) by lia. subst. simpl in Hin.
    destruct Hin as [<-|[]]. exact Hfin.
  - destruct i as [|i]; [simpl in Hin; destruct Hin as [<-|[]]; exact Hfin|].
    destruct j as [|j]; [simpl in Hin; destruct Hin as [<-|[]]; exact Hfin|].
    cbn [tb pcells pred] in Hin. destruct Hin as [<-|Hin]; [exact Hfin|].
    pose proof (pick_value i j) as Hv.
    destruct (pick M pen i j).
    + apply (IH i j); [lia| |exact Hin]. intros E. apply Hfin. rewrite Hv, E. reflexivity.
    + apply (IH i (S j)); [lia| |exact Hin]. intros E. apply Hfin. rewrite Hv, E. reflexivity.
    + apply (IH (S i) j); [lia| |exact Hin]. intros E. apply Hfin. rewrite Hv, E. reflexivity.
Qed.

Lemma interior_finite_in_band_cell i j : M (S i) (S j) <> Inf -> d i j <> Inf.
Proof. unfold M. rewrite Mf_S_S. unfold code_cell. intros H E. rewrite E in H. apply H. reflexivity. Qed.
End TBM.

(* ---------------------------------------------------------------- executable form *)
(* dtw.best_path(paths, row, col, penalty): the list of series index pairs, start to end *)
Definition series_pairs (i j : nat) (p : list step) : list (nat * nat) :=
  rev (map (fun ab => (pred (fst ab), pred (snd ab)))
           (filter (fun ab => negb ((fst ab =? 0)%nat || (snd ab =? 0)%nat)) (pcells i j p))).

Definition best_path_model (m : list (list cost)) (pen : Z) (i j : nat) : list (nat * nat) :=
  series_pairs i j (tb (mget m) pen (i + j) i j).
