(* One DBA step and the sum of squared DTW distances.

   dtw_barycenter.dba (Python) / dtw_dba_ptrs, dtw_dba_matrix (C): for every selected series s
   an optimal warping path P between the current average c and s is computed; the pairs (a, b) of P
   contribute the value s[b] to position a of the association table; the new average is the
   position-wise mean.  (With no psi relaxation and no max_step the set of admissible index paths
   depends on the two lengths, the window and nothing else.)

   The cost of an index path between c and s is the sum of the squared differences along it plus
   the penalty for every non-diagonal step; the DTW distance (squared) is the least cost of an
   admissible path (C01: dtw_value_lower / dtw_value_attained for the integer model).  Proved here
   over the reals, for every collection, every average, every penalty:

     the sum over the selected series of the cost of THEIR OLD optimal paths does not increase when
     c is replaced by the new average, hence neither does the sum of squared DTW distances. *)
From Coq Require Import Reals Lra List Lia Bool Arith.
From DV Require Import Dba.
Import ListNotations.
Open Scope R_scope.

Definition idxpath := list (nat * nat).

Fixpoint nondiag (P : idxpath) : nat :=
  match P with
  | ab :: (ab' :: _) as t =>
      (if (fst ab' =? S (fst ab))%nat && (snd ab' =? S (snd ab))%nat then 0 else 1) + nondiag t
  | _ => 0
  end.

(* the (position of the average, value of the series) pairs a path contributes: assoctab[i].append(seq[j]) *)
Definition aligned (s : list R) (P : idxpath) : list (nat * R) := map (fun ab => (fst ab, nth (snd ab) s 0)) P.

Section Step.
Variable pen : R.

Definition rpath_cost (c s : list R) (P : idxpath) : R := pairs_cost c (aligned s P) + pen * INR (nondiag P).

Fixpoint total (c : list R) (SP : list (list R * idxpath)) : R :=
  match SP with [] => 0 | sp :: t => rpath_cost c (fst sp) (snd sp) + total c t end.
Fixpoint total_pen (SP : list (list R * idxpath)) : R :=
  match SP with [] => 0 | sp :: t => pen * INR (nondiag (snd sp)) + total_pen t end.
Definition all_pairs (SP : list (list R * idxpath)) : list (nat * R) :=
  flat_map (fun sp => aligned (fst sp) (snd sp)) SP.

Lemma pairs_cost_app c p q : pairs_cost c (p ++ q) = pairs_cost c p + pairs_cost c q.
Proof. induction p as [|[i v] p IH]; simpl; [lra|]. rewrite IH. lra. Qed.

Lemma total_split c SP : total c SP = pairs_cost c (all_pairs SP) + total_pen SP.
Proof.
  induction SP as [|sp SP IH]; simpl; [lra|]. unfold all_pairs in *. rewrite pairs_cost_app, IH. unfold rpath_cost. lra.
Qed.

(* the new average: dba_step of the table built from all contributed pairs *)
Definition new_average (t : nat) (SP : list (list R * idxpath)) : list R := dba_step (build t (all_pairs SP)).

(* a position that received a point has a non-empty table entry *)
Lemma assoc_add_nonempty_keep : forall A i v a, nth a A [] <> [] -> nth a (assoc_add A i v) [] <> [].
Proof.
  induction A as [|Ai A IH]; intros i v a H; [exact H|]. destruct i as [|i]; destruct a as [|a]; simpl in *; auto.
  intros E. apply app_eq_nil in E. destruct E as [E _]. contradiction.
Qed.
Lemma assoc_add_nonempty_here : forall A i v, (i < length A)%nat -> nth i (assoc_add A i v) [] <> [].
Proof.
  induction A as [|Ai A IH]; intros i v H; [simpl in H; lia|]. destruct i as [|i]; simpl.
  - intros E. apply app_eq_nil in E. destruct E as [_ E]. discriminate.
  - apply IH. simpl in H. lia.
Qed.
Lemma fold_add_length : forall ps A, length (fold_left (fun A iv => assoc_add A (fst iv) (snd iv)) ps A) = length A.
Proof. induction ps as [|iv ps IH]; intros A; simpl; [reflexivity|]. rewrite IH. apply assoc_add_length. Qed.
Lemma fold_add_keep : forall ps A a, nth a A [] <> [] ->
  nth a (fold_left (fun A iv => assoc_add A (fst iv) (snd iv)) ps A) [] <> [].
Proof. induction ps as [|iv ps IH]; intros A a H; simpl; [exact H|]. apply IH. apply assoc_add_nonempty_keep. exact H. Qed.
Lemma fold_add_nonempty : forall ps A a v, In (a, v) ps -> (a < length A)%nat ->
  nth a (fold_left (fun A iv => assoc_add A (fst iv) (snd iv)) ps A) [] <> [].
Proof.
  induction ps as [|iv ps IH]; intros A a v Hin Ha; [destruct Hin|]. simpl. destruct Hin as [->|Hin].
  - apply fold_add_keep. cbn [fst snd]. apply assoc_add_nonempty_here. exact Ha.
  - apply IH with (v := v); [exact Hin|rewrite assoc_add_length; exact Ha].
Qed.

Lemma build_length t ps : length (build t ps) = t.
Proof. unfold build. rewrite fold_add_length. apply repeat_length. Qed.

Lemma build_nonempty t ps : (forall a, (a < t)%nat -> exists v, In (a, v) ps) ->
  forall Ai, In Ai (build t ps) -> Ai <> [].
Proof.
  intros Hcov Ai Hin. destruct (In_nth _ _ [] Hin) as [a [Ha <-]]. rewrite build_length in Ha.
  destruct (Hcov a Ha) as [v Hv]. unfold build. apply fold_add_nonempty with (v := v); [exact Hv|rewrite repeat_length; exact Ha].
Qed.

(* The association cost along the OLD paths does not increase. *)
Theorem dba_step_never_worsens_old_paths : forall c SP,
  (forall iv, In iv (all_pairs SP) -> (fst iv < length c)%nat) ->          (* paths index into the average *)
  (forall a, (a < length c)%nat -> exists v, In (a, v) (all_pairs SP)) ->  (* every position is aligned with something *)
  total (new_average (length c) SP) SP <= total c SP.
Proof.
  intros c SP Hidx Hcov. rewrite !total_split.
  assert (Hlen : length (new_average (length c) SP) = length c).
  { unfold new_average, dba_step. rewrite map_length. apply build_length. }
  rewrite <- (assoc_cost_is_sum_over_aligned_pairs c (all_pairs SP) Hidx).
  rewrite <- (assoc_cost_is_sum_over_aligned_pairs (new_average (length c) SP) (all_pairs SP)) by (rewrite Hlen; exact Hidx).
  rewrite Hlen. unfold new_average.
  pose proof (dba_step_decreases_assoc_cost c (build (length c) (all_pairs SP))
                (eq_sym (build_length _ _)) (build_nonempty _ _ Hcov)). lra.
Qed.

(* Hence: the sum of the (squared) DTW distances does not increase, for ANY function dist that is
   (1) attained by the path used for the old average and (2) a lower bound of the cost of every
   admissible path -- the same index paths stay admissible because admissibility does not depend
   on the values of the average. *)
Fixpoint dist_sum (dist : list R -> list R -> R) (c : list R) (SP : list (list R * idxpath)) : R :=
  match SP with [] => 0 | sp :: t => dist c (fst sp) + dist_sum dist c t end.

Lemma dist_sum_total (dist : list R -> list R -> R) c SP :
  (forall sp, In sp SP -> dist c (fst sp) = rpath_cost c (fst sp) (snd sp)) -> dist_sum dist c SP = total c SP.
Proof.
  induction SP as [|sp SP IH]; intros Hopt; simpl; [reflexivity|].
  rewrite (Hopt sp (or_introl eq_refl)), IH; [reflexivity|]. intros; apply Hopt; right; assumption.
Qed.
Lemma dist_sum_le_total (dist : list R -> list R -> R) c' SP :
  (forall sp, In sp SP -> dist c' (fst sp) <= rpath_cost c' (fst sp) (snd sp)) -> dist_sum dist c' SP <= total c' SP.
Proof.
  induction SP as [|sp SP IH]; intros Hlow; simpl; [lra|].
  assert (Ha := Hlow sp (or_introl eq_refl)). assert (Hb := IH (fun x Hx => Hlow x (or_intror Hx))). lra.
Qed.

Theorem dba_step_never_worsens_dtw : forall (dist : list R -> list R -> R) c SP,
  (forall iv, In iv (all_pairs SP) -> (fst iv < length c)%nat) ->
  (forall a, (a < length c)%nat -> exists v, In (a, v) (all_pairs SP)) ->
  (forall sp, In sp SP -> dist c (fst sp) = rpath_cost c (fst sp) (snd sp)) ->                       (* optimal for c *)
  (forall c' sp, In sp SP -> length c' = length c -> dist c' (fst sp) <= rpath_cost c' (fst sp) (snd sp)) ->  (* lower bound *)
  dist_sum dist (new_average (length c) SP) SP <= dist_sum dist c SP.
Proof.
  intros dist c SP Hidx Hcov Hopt Hlow.
  assert (Hlen : length (new_average (length c) SP) = length c) by (unfold new_average, dba_step; rewrite map_length; apply build_length).
  rewrite (dist_sum_total dist c SP Hopt).
  eapply Rle_trans; [apply dist_sum_le_total; intros sp Hsp; apply Hlow; [exact Hsp|exact Hlen]|].
  apply dba_step_never_worsens_old_paths; assumption.
Qed.
End Step.

(* a contiguous path that starts in row 0 and ends in row t-1 visits every row: the covering premise holds
   for warping paths (steps (1,1), (1,0), (0,1)) of one selected series *)
Definition unit_steps (P : idxpath) : Prop :=
  forall k, (S k < length P)%nat -> (fst (nth (S k) P (0, 0)) <= S (fst (nth k P (0, 0))))%nat.

Lemma path_covers_rows : forall P t, P <> [] -> unit_steps P -> fst (hd (0, 0)%nat P) = 0%nat -> fst (last P (0, 0)%nat) = (t - 1)%nat ->
  forall a, (a < t)%nat -> exists b, In (a, b) P.
Proof.
  intros P t Hne Hst Hhd Hlast a Ha.
  (* the first index k whose row is >= a has row exactly a *)
  assert (G : forall n (Q : idxpath), length Q = n -> Q <> [] ->
              (forall k, (S k < length Q)%nat -> (fst (nth (S k) Q (0, 0)%nat) <= S (fst (nth k Q (0, 0)%nat)))%nat) ->
              (fst (hd (0, 0)%nat Q) <= a)%nat -> (a <= fst (last Q (0, 0)%nat))%nat -> exists b, In (a, b) Q).
  { induction n as [|n IH]; intros Q Hl HQ Hs H0 H1; [destruct Q; [congruence|discriminate]|].
    destruct Q as [|[x y] Q]; [congruence|]. cbn [hd fst] in H0.
    destruct (Nat.eq_dec x a) as [->|Hxa]; [exists y; left; reflexivity|].
    destruct Q as [|q Q'].
    - cbn in H1. lia.
    - destruct (IH (q :: Q')) as [b Hb].
      + simpl in Hl |- *. lia.
      + discriminate.
      + intros k Hk. apply (Hs (S k)). simpl in *. lia.
      + specialize (Hs 0%nat ltac:(simpl; lia)). cbn in Hs. cbn [hd]. lia.
      + exact H1.
      + exists b. right. exact Hb. }
  apply (G (length P) P eq_refl Hne Hst); [rewrite Hhd; lia|rewrite Hlast; lia].
Qed.
