(* The four row loops of the regenerated kernel dtw_warping_paths_ndim (Gen_cwpsk.v) are: a head fill that depends on
   the region, the shared row core of CWpsKernel.k_wrow_core with the canonical loop bodies, and the update of the
   region's scalars.  Proved by unfolding the regenerated text. *)
From Coq Require Import ZArith Bool List Lia.
From DV Require Import Prelude Cost CLang CDistCanon CWpsCanon CWpsKernel.
From DVGen Require Import Gen_cwpsk.
Import ListNotations.
Open Scope Z_scope.
Open Scope bool_scope.

Lemma k_wrow_core_ext ls ls' lc lc' lf lf' :
  (forall a b st i, ls a b st i = ls' a b st i) -> (forall ec st i, lc ec st i = lc' ec st i) -> (forall a st i, lf a st i = lf' a st i) ->
  forall psi ri mn mx w wl rw ec ok sc wps wpsi R (K : Z -> bool -> Z -> list cost -> R),
    k_wrow_core ls lc lf psi ri mn mx w wl rw ec ok sc wps wpsi K = k_wrow_core ls' lc' lf' psi ri mn mx w wl rw ec ok sc wps wpsi K.
Proof.
  intros Hs Hc Hf psi ri mn mx w wl rw ec ok sc wps wpsi R K. unfold k_wrow_core. cbv zeta.
  destruct ((if ri <=? psi then 0 else sc) <=? mn).
  - rewrite (fold_left_ext _ _ _ _ (Hc _)).
    match goal with |- context [@fold_left ?A ?B ?f ?l ?a] => destruct (@fold_left A B f l a) as [[[[[[e1 o1] s1] f1] w1] p1] b1] end.
    rewrite (fold_left_ext _ _ _ _ (Hf _)). reflexivity.
  - rewrite (fold_left_ext _ _ _ _ (Hs _ _)).
    match goal with |- context [@fold_left ?A ?B ?f ?l (ok, wps, wpsi)] => destruct (@fold_left A B f l (ok, wps, wpsi)) as [[o0 w0] p0] end.
    rewrite (fold_left_ext _ _ _ _ (Hc _)).
    match goal with |- context [@fold_left ?A ?B ?f ?l (?x, o0, ?y, false, w0, p0, false)] =>
      destruct (@fold_left A B f l (x, o0, y, false, w0, p0, false)) as [[[[[[e1 o1] s1] f1] w1] p1] b1] end.
    rewrite (fold_left_ext _ _ _ _ (Hf _)). reflexivity.
Qed.

Section Rows.
Variables (psi_1b l1 l2 ndim : Z) (md ms pen : cost) (pw : Z) (s1 s2 : list Z) (wl : Z).
Local Notation cellA ri rw rwp := (fun ec => k_wcell (wdok l1 l2 ndim s1 s2 (ri * ndim)) (wdfun_sq l1 l2 ndim s1 s2 (ri * ndim)) fdA fuA ec md ms pen rw rwp wl).
Local Notation cellC ri rw rwp := (fun ec => k_wcell (wdok l1 l2 ndim s1 s2 (ri * ndim)) (wdfun_sq l1 l2 ndim s1 s2 (ri * ndim)) fdC fuC ec md ms pen rw rwp wl).

(* region A: for (ri=0; ri<p.ri1; ri++) *)
Lemma tie_sq_rowA min_ci st ri :
  c_dtw_warping_paths_ndim_loop5 psi_1b l1 l2 min_ci ndim md ms pen pw s1 s2 wl st ri =
  (let '(ec, max_ci, ok, ri_width, ri_widthp, sc, wps) := st in
   k_wrow_core k_wskip (cellA ri ri_width ri_widthp) k_wfill psi_1b ri min_ci max_ci pw wl ri_width ec ok sc wps 1
     (fun ec ok sc wps => (ec, max_ci + 1, ok, ri_width + pw, ri_width, sc, wps))).
Proof.
  destruct st as [[[[[[ec max_ci] ok] ri_width] ri_widthp] sc] wps].
  transitivity (k_wrow_core c_dtw_warping_paths_ndim_loop6
                  (fun ec => c_dtw_warping_paths_ndim_loop7 ec l1 l2 ndim md ms pen (ri * ndim) ri_width ri_widthp s1 s2 wl)
                  c_dtw_warping_paths_ndim_loop9 psi_1b ri min_ci max_ci pw wl ri_width ec ok sc wps 1
                  (fun ec ok sc wps => (ec, max_ci + 1, ok, ri_width + pw, ri_width, sc, wps))).
  - reflexivity.
  - apply k_wrow_core_ext; intros; [apply tie_sq_skip6|apply tie_sq_cell7|apply tie_sq_fill9].
Qed.

(* region B: for (ri=p.ri1; ri<p.ri2; ri++) *)
Lemma tie_sq_rowB max_ci min_ci st ri :
  c_dtw_warping_paths_ndim_loop10 psi_1b l1 l2 max_ci min_ci ndim md ms pen pw s1 s2 wl st ri =
  (let '(ec, ok, ri_width, ri_widthp, sc, wps) := st in
   k_wrow_core k_wskip (cellA ri ri_width ri_widthp) k_wfill psi_1b ri min_ci max_ci pw wl ri_width ec ok sc wps 1
     (fun ec ok sc wps => (ec, ok, ri_width + pw, ri_width, sc, wps))).
Proof.
  destruct st as [[[[[ec ok] ri_width] ri_widthp] sc] wps].
  transitivity (k_wrow_core c_dtw_warping_paths_ndim_loop11
                  (fun ec => c_dtw_warping_paths_ndim_loop12 ec l1 l2 ndim md ms pen (ri * ndim) ri_width ri_widthp s1 s2 wl)
                  c_dtw_warping_paths_ndim_loop14 psi_1b ri min_ci max_ci pw wl ri_width ec ok sc wps 1
                  (fun ec ok sc wps => (ec, ok, ri_width + pw, ri_width, sc, wps))).
  - reflexivity.
  - apply k_wrow_core_ext; intros; [apply tie_sq_skip11|apply tie_sq_cell12|apply tie_sq_fill14].
Qed.

(* region C: for (ri=p.ri2; ri<p.ri3; ri++), slot 0 of the row is set to infinity first *)
Lemma tie_sq_rowC st ri :
  c_dtw_warping_paths_ndim_loop15 psi_1b l1 l2 ndim md ms pen pw s1 s2 wl st ri =
  (let '(ec, max_ci, min_ci, ok, ri_width, ri_widthp, sc, wps) := st in
   k_wrow_core k_wskip (cellC ri ri_width ri_widthp) k_wfill psi_1b ri min_ci max_ci pw wl ri_width ec
     (ok && inb wl ri_width) sc (aset wps ri_width Inf) 1
     (fun ec ok sc wps => (ec, max_ci + 1, min_ci + 1, ok, ri_width + pw, ri_width, sc, wps))).
Proof.
  destruct st as [[[[[[[ec max_ci] min_ci] ok] ri_width] ri_widthp] sc] wps].
  transitivity (k_wrow_core c_dtw_warping_paths_ndim_loop16
                  (fun ec => c_dtw_warping_paths_ndim_loop17 ec l1 l2 ndim md ms pen (ri * ndim) ri_width ri_widthp s1 s2 wl)
                  c_dtw_warping_paths_ndim_loop19 psi_1b ri min_ci max_ci pw wl ri_width ec
                  (ok && inb wl ri_width) sc (aset wps ri_width Inf) 1
                  (fun ec ok sc wps => (ec, max_ci + 1, min_ci + 1, ok, ri_width + pw, ri_width, sc, wps))).
  - reflexivity.
  - apply k_wrow_core_ext; intros; [apply tie_sq_skip16|apply tie_sq_cell17|apply tie_sq_fill19].
Qed.

(* region D: for (ri=p.ri3; ri<l1; ri++), the slots left of the first cell are filled with infinity first *)
Lemma tie_sq_rowD st ri :
  c_dtw_warping_paths_ndim_loop20 psi_1b l1 l2 ndim md ms pen pw s1 s2 wl st ri =
  (let '(ec, min_ci, ok, ri_width, ri_widthp, sc, wps, wpsi_start) := st in
   let '(ok, wps) := fold_left (k_wfill wl) (zrange ri_width (ri_width + wpsi_start)) (ok, wps) in
   k_wrow_core k_wskip (cellA ri ri_width ri_widthp) k_wfill psi_1b ri min_ci l2 pw wl ri_width ec ok sc wps wpsi_start
     (fun ec ok sc wps => (ec, min_ci + 1, ok, ri_width + pw, ri_width, sc, wps, wpsi_start + 1))).
Proof.
  destruct st as [[[[[[[ec min_ci] ok] ri_width] ri_widthp] sc] wps] wpsi_start].
  transitivity (let '(ok, wps) := fold_left (c_dtw_warping_paths_ndim_loop21 wl) (zrange ri_width (ri_width + wpsi_start)) (ok, wps) in
                k_wrow_core c_dtw_warping_paths_ndim_loop22
                  (fun ec => c_dtw_warping_paths_ndim_loop23 ec l1 l2 ndim md ms pen (ri * ndim) ri_width ri_widthp s1 s2 wl)
                  c_dtw_warping_paths_ndim_loop25 psi_1b ri min_ci l2 pw wl ri_width ec ok sc wps wpsi_start
                  (fun ec ok sc wps => (ec, min_ci + 1, ok, ri_width + pw, ri_width, sc, wps, wpsi_start + 1))).
  - reflexivity.
  - rewrite (fold_left_ext _ _ _ _ (tie_sq_fill21 _)).
    destruct (fold_left (k_wfill wl) (zrange ri_width (ri_width + wpsi_start)) (ok, wps)) as [ok1 wps1].
    apply k_wrow_core_ext; intros; [apply tie_sq_skip22|apply tie_sq_cell23|apply tie_sq_fill25].
Qed.
End Rows.
