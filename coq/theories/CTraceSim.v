(* The C traceback loop simulates the abstract traceback with the C rule.

   State of the loop: the current cell (rip, cip) and wpsi; the active loop (D, C or A-B) is determined by rip
   (the loops run in this order and rip only decreases).  The compact array is an accessor W row slot.
   Hypotheses: W holds the matrix M through the layout (correspondence of C04: every slot of every row, band cells
   and filled slots alike), and a finite cell lies in the band (M is the DTW matrix for the same window).
   Then, started with wpsi = the layout slot of a finite cell, the loop with the regenerated offsets and moves
   (CTrace.v: they are the canonical ones) takes exactly the steps of gtb cpick -- whose path costs the value of the
   start cell (TracebackC.v). *)
From Coq Require Import ZArith Bool Lia List.
From DV Require Import Prelude Cost Grid Dtw DtwSpec DtwProps Traceback TracebackC CWps CFill CExpand CFillSim CTrace.
From DVGen Require Import Gen_cwps Gen_ctrace.
Import ListNotations.
Open Scope Z_scope.

Section Sim.
Variables l1 l2 window0 : Z.
Hypothesis H1 : 1 <= l1.
Hypothesis H2 : 1 <= l2.
Hypothesis Hw : 0 <= window0.
Variable d : nat -> nat -> cost.
Variable pen : Z.
Variables p1b p2b : nat.
Local Notation M := (Mf d pen p1b p2b).
Variable W : Z -> Z -> cost.

Local Notation shiftz := (cw_shift l1 l2 window0).
Local Notation widthz := (cw_width l1 l2 window0).
Local Notation ri2z := (cw_ri2 l1 l2 window0).
Local Notation ri3z := (cw_ri3 l1 l2 window0).

(* the compact array holds M through the layout *)
(* (the border column 0 is kept only in the rows above the left overlap: CFillSim.v) *)
Hypothesis HW : forall (i : nat) (s : Z), Z.of_nat i <= l1 -> 0 <= s < widthz ->
  0 <= s + shiftz (Z.of_nat i - 1) <= l2 ->
  (s + shiftz (Z.of_nat i - 1) = 0 -> Z.of_nat i <= ri2z) ->
  W (Z.of_nat i) s = M i (Z.to_nat (s + shiftz (Z.of_nat i - 1))).
(* finite interior cells are band cells *)
Hypothesis Hband : forall i j : nat, Z.of_nat (S i) <= l1 -> Z.of_nat (S j) <= l2 -> M (S i) (S j) <> Inf ->
  band_lo l1 l2 (cw_window l1 l2 window0) (Z.of_nat i) <= Z.of_nat j < band_hi l1 l2 (cw_window l1 l2 window0) (Z.of_nat i).

Definition active (rip : Z) : trace_region := if rip >? ri3z then TD else if rip >? ri2z then TC else TAB.

Fixpoint c_trace (fuel i j : nat) (wpsi : Z) : list step :=
  match fuel with
  | O => []
  | S f =>
    match i, j with
    | S i', S j' =>
      let rip := Z.of_nat (S i') in
      let t := tcanon (active rip) in
      let a := W (rip - 1) (wpsi + tl_diag t) in
      let l := W rip (wpsi + tl_left t) in
      let u := W (rip - 1) (wpsi + tl_up t) in
      if cleb a (cadd l (Fin pen)) && cleb a (cadd u (Fin pen)) then SD :: c_trace f i' j' (wpsi + tl_w_diag t)
      else if cleb l u then SL :: c_trace f (S i') j' (wpsi + tl_w_left t)
      else SU :: c_trace f i' (S j') (wpsi + tl_w_up t)
    | _, _ => []
    end
  end.

Lemma active_range rip : 1 <= rip <= l1 ->
  tr_lo l1 l2 window0 (tl_region (tcanon (active rip))) < rip <= tr_hi l1 l2 window0 (tl_region (tcanon (active rip))).
Proof.
  intros Hr. unfold active, cw_ri2, cw_ri3.
  destruct (Z.gtb_spec rip (c_parts_ri3 l1 (c_parts_overlap_left l1 (c_parts_ldiffr l1 l2 (c_parts_ldiff l1 l2)) (c_parts_window l1 l2 window0))
                                       (c_parts_overlap_right l1 (c_parts_ldiffr l1 l2 (c_parts_ldiff l1 l2)) (c_parts_window l1 l2 window0)))) as [G3|G3];
    [cbn; unfold tr_lo, tr_hi; lia|].
  destruct (Z.gtb_spec rip (c_parts_ri2 l1 (c_parts_overlap_left l1 (c_parts_ldiffr l1 l2 (c_parts_ldiff l1 l2)) (c_parts_window l1 l2 window0)))) as [G2|G2];
    cbn; unfold tr_lo, tr_hi; lia.
Qed.

Theorem c_trace_is_gtb : forall fuel i j wpsi,
  Z.of_nat i <= l1 -> Z.of_nat j <= l2 -> M i j <> Inf ->
  wpsi = Z.of_nat j - shiftz (Z.of_nat i - 1) ->
  c_trace fuel i j wpsi = gtb (cpick d pen p1b p2b) fuel i j.
Proof.
  induction fuel as [|f IH]; intros i j wpsi Hi Hj Hfin Hinv; [reflexivity|].
  destruct i as [|i']; [reflexivity|]. destruct j as [|j']; [reflexivity|].
  cbn [c_trace gtb]. cbv zeta.
  set (rip := Z.of_nat (S i')). set (cip := Z.of_nat (S j')).
  assert (Hrip : 1 <= rip <= l1) by (unfold rip; lia).
  assert (Hcip : 1 <= cip <= l2) by (unfold cip; lia).
  pose proof (tcanon_ok l1 l2 window0 H1 H2 Hw (active rip) rip cip wpsi) as Hok.
  specialize (Hok (active_range rip Hrip) Hrip Hcip ltac:(unfold rip, cip; exact Hinv)).
  replace (tl_region (tcanon (active rip))) with (active rip) in * by (destruct (active rip); reflexivity).
  destruct Hok as (Ed & El & Eu & Ewd & Ewl & Ewu & Hin).
  assert (Hb := Hband i' j' Hi Hj Hfin).
  specialize (Hin ltac:(unfold rip, cip; rewrite !Nat2Z.inj_succ; replace (Z.succ (Z.of_nat i') - 1) with (Z.of_nat i') by lia;
                        replace (Z.succ (Z.of_nat j') - 1) with (Z.of_nat j') by lia; exact Hb)).
  destruct Hin as (Hl0 & Hww & Hd0 & Hu1).
  unfold twidth, tshift in *.
  set (t := tcanon (active rip)) in *.
  assert (Hdu : tl_up t = tl_diag t + 1) by (unfold t; destruct (active rip); reflexivity).
  assert (Hlf : tl_left t = -1) by (unfold t; destruct (active rip); reflexivity).
  (* the three reads are the three matrix cells *)
  assert (Hrow0 : Z.of_nat j' = 0 -> Z.of_nat i' < ri2z).
  { intros E0. apply (band_starts_at_zero l1 l2 window0 H1 H2 Hw (Z.of_nat i')); [unfold rip in Hrip; lia|].
    unfold blo. unfold band_lo in *. lia. }
  assert (Ra : W (rip - 1) (wpsi + tl_diag t) = M i' j').
  { replace (rip - 1) with (Z.of_nat i') by (unfold rip; lia).
    rewrite HW; [f_equal| lia | lia | |].
    - replace (Z.of_nat i' - 1) with (rip - 2) by (unfold rip; lia). rewrite Ed. unfold cip. lia.
    - replace (Z.of_nat i' - 1) with (rip - 2) by (unfold rip; lia). rewrite Ed. unfold cip. lia.
    - replace (Z.of_nat i' - 1) with (rip - 2) by (unfold rip; lia). rewrite Ed. unfold cip. intros E0.
      assert (Z.of_nat j' = 0) by lia. specialize (Hrow0 H). lia. }
  assert (Ru : W (rip - 1) (wpsi + tl_up t) = M i' (S j')).
  { replace (rip - 1) with (Z.of_nat i') by (unfold rip; lia).
    rewrite HW; [f_equal| lia | lia | |].
    - replace (Z.of_nat i' - 1) with (rip - 2) by (unfold rip; lia). rewrite Eu. unfold cip. lia.
    - replace (Z.of_nat i' - 1) with (rip - 2) by (unfold rip; lia). rewrite Eu. unfold cip. lia.
    - replace (Z.of_nat i' - 1) with (rip - 2) by (unfold rip; lia). rewrite Eu. unfold cip. lia. }
  assert (Rl : W rip (wpsi + tl_left t) = M (S i') j').
  { unfold rip at 1. rewrite HW; [f_equal| unfold rip in Hrip; lia | lia | |].
    - fold rip. rewrite El. unfold cip. lia.
    - fold rip. rewrite El. unfold cip. lia.
    - fold rip. rewrite El. unfold cip. intros E0. assert (Z.of_nat j' = 0) by lia. specialize (Hrow0 H). unfold rip. lia. }
  rewrite Ra, Ru, Rl.
  pose proof (cpick_admissible d pen p1b p2b i' j') as Hadm.
  destruct (cleb (M i' j') (cadd (M (S i') j') (Fin pen)) && cleb (M i' j') (cadd (M i' (S j')) (Fin pen))) eqn:E1.
  - assert (Hp : cpick d pen p1b p2b i' j' = SD) by (unfold cpick; rewrite E1; reflexivity).
    rewrite Hp in *. f_equal. apply IH; [lia|lia| |].
    + intros E. apply Hfin. rewrite Hadm, E. reflexivity.
    + rewrite Ewd. unfold rip, cip. replace (Z.of_nat (S i') - 2) with (Z.of_nat i' - 1) by lia. lia.
  - destruct (cleb (M (S i') j') (M i' (S j'))) eqn:E2.
    + assert (Hp : cpick d pen p1b p2b i' j' = SL) by (unfold cpick; rewrite E1, E2; reflexivity).
      rewrite Hp in *. f_equal. apply IH; [lia|lia| |].
      * intros E. apply Hfin. rewrite Hadm, E. reflexivity.
      * rewrite Ewl. unfold rip, cip. lia.
    + assert (Hp : cpick d pen p1b p2b i' j' = SU) by (unfold cpick; rewrite E1, E2; reflexivity).
      rewrite Hp in *. f_equal. apply IH; [lia|lia| |].
      * intros E. apply Hfin. rewrite Hadm, E. reflexivity.
      * rewrite Ewu. unfold rip, cip. replace (Z.of_nat (S i') - 2) with (Z.of_nat i' - 1) by lia. lia.
Qed.

(* hence the path the C loop traces costs exactly the value of its start cell *)
Corollary c_trace_cost : forall fuel i j wpsi, (i + j <= fuel)%nat ->
  Z.of_nat i <= l1 -> Z.of_nat j <= l2 -> M i j <> Inf -> wpsi = Z.of_nat j - shiftz (Z.of_nat i - 1) ->
  path_cost d pen p1b p2b i j (c_trace fuel i j wpsi) = Some (M i j).
Proof.
  intros fuel i j wpsi Hf Hi Hj Hfin Hinv. rewrite (c_trace_is_gtb fuel i j wpsi Hi Hj Hfin Hinv).
  apply c_traceback_cost. exact Hf.
Qed.
End Sim.
