(* Tie by regeneration for C07: the index plan Parallel.v reasons about (cb_of,
   the running offset rls, slot, the row / column ranges of a task) is the one
   dd_dtw_openmp.c computes: dtw_distances_prepare and the six parallel routines,
   regenerated into Gen_ompidx.  All six routines carry the same expressions. *)
From Coq Require Import ZArith Bool List Lia.
From DV Require Import Prelude Parallel.
From DVGen Require Import Gen_ompidx.
Import ListNotations.
Open Scope Z_scope.

Lemma tie_prepare_cb b r : k_triu b = true -> cb_of b r = c_prepare_cb (k_cb b) r.
Proof. intros H. unfold cb_of, c_prepare_cb. rewrite H. reflexivity. Qed.

Lemma tie_prepare_rows b : zrange (k_rb b) (k_re b) = zrange (c_prepare_row_start (k_rb b)) (c_prepare_row_end (k_re b)).
Proof. reflexivity. Qed.

(* the running offset: rs starts at 0 and grows by the regenerated increment with the regenerated cb *)
Lemma tie_prepare_rls b : k_triu b = true -> forall rows rs,
  rls_from b rows rs =
  (fix go (rows : list Z) (rs : Z) : list Z :=
     match rows with [] => [] | r :: t => rs :: go t (rs + c_prepare_rs_inc (c_prepare_cb (k_cb b) r) (k_ce b)) end) rows rs.
Proof.
  intros H. induction rows as [|r t IH]; intros rs; [reflexivity|].
  cbn [rls_from]. rewrite IH. rewrite (tie_prepare_cb b r H). reflexivity.
Qed.

Section OneRoutine.
Variables (rows : Z -> Z -> Z) (row : Z -> Z -> Z) (col_rect : Z -> Z) (col_end : Z -> Z)
          (slot_triu_off : Z -> Z) (slot_rect : Z -> Z -> Z -> Z -> Z).
Definition routine_matches : Prop :=
  (forall rb re, rows rb re = re - rb) /\ (forall r_i rb, row r_i rb = rb + r_i) /\
  (forall cb, col_rect cb = cb) /\ (forall ce, col_end ce = ce) /\
  (forall c_i, slot_triu_off c_i = c_i) /\ (forall c_i cb ce r_i, slot_rect c_i cb ce r_i = (ce - cb) * r_i + c_i).

(* a task of Parallel.tasks is what the routine executes for (r_i, c_i): same row, same column, same output slot *)
Lemma routine_task b r_i c_i : routine_matches ->
  zrange 0 (k_re b - k_rb b) = zrange 0 (rows (k_rb b) (k_re b)) /\
  k_rb b + r_i = row r_i (k_rb b) /\
  cb_of b (k_rb b + r_i) = (if k_triu b then c_prepare_cb (k_cb b) (row r_i (k_rb b)) else col_rect (k_cb b)) /\
  k_ce b = col_end (k_ce b) /\
  slot b r_i c_i = (if k_triu b then nth (Z.to_nat r_i) (rls b) 0 + slot_triu_off c_i
                    else slot_rect c_i (k_cb b) (k_ce b) r_i).
Proof.
  intros (H1 & H2 & H3 & H4 & H5 & H6). rewrite H1, H2, H3, H4, H5, H6.
  unfold slot, cb_of, c_prepare_cb. destruct (k_triu b); repeat split; reflexivity.
Qed.
End OneRoutine.

Theorem omp_routines_match :
  routine_matches c_omp0_rows c_omp0_row c_omp0_col_rect c_omp0_col_end c_omp0_slot_triu_off c_omp0_slot_rect /\
  routine_matches c_omp1_rows c_omp1_row c_omp1_col_rect c_omp1_col_end c_omp1_slot_triu_off c_omp1_slot_rect /\
  routine_matches c_omp2_rows c_omp2_row c_omp2_col_rect c_omp2_col_end c_omp2_slot_triu_off c_omp2_slot_rect /\
  routine_matches c_omp3_rows c_omp3_row c_omp3_col_rect c_omp3_col_end c_omp3_slot_triu_off c_omp3_slot_rect /\
  routine_matches c_omp4_rows c_omp4_row c_omp4_col_rect c_omp4_col_end c_omp4_slot_triu_off c_omp4_slot_rect /\
  routine_matches c_omp5_rows c_omp5_row c_omp5_col_rect c_omp5_col_end c_omp5_slot_triu_off c_omp5_slot_rect.
Proof.
  unfold routine_matches,
    c_omp0_rows, c_omp0_row, c_omp0_col_rect, c_omp0_col_end, c_omp0_slot_triu_off, c_omp0_slot_rect,
    c_omp1_rows, c_omp1_row, c_omp1_col_rect, c_omp1_col_end, c_omp1_slot_triu_off, c_omp1_slot_rect,
    c_omp2_rows, c_omp2_row, c_omp2_col_rect, c_omp2_col_end, c_omp2_slot_triu_off, c_omp2_slot_rect,
    c_omp3_rows, c_omp3_row, c_omp3_col_rect, c_omp3_col_end, c_omp3_slot_triu_off, c_omp3_slot_rect,
    c_omp4_rows, c_omp4_row, c_omp4_col_rect, c_omp4_col_end, c_omp4_slot_triu_off, c_omp4_slot_rect,
    c_omp5_rows, c_omp5_row, c_omp5_col_rect, c_omp5_col_end, c_omp5_slot_triu_off, c_omp5_slot_rect.
  repeat split; intros; lia.
Qed.
