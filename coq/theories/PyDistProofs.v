(* Refinement proof: the rolling-buffer model of dtw.distance (PyDist.dist_model,
   written after the code, with the regenerated index arithmetic) computes the
   specification-level value DtwSpec.dtw_model, for every pair of series and
   every setting in the guard: window >= 1, non-empty series, non-degenerate psi. *)
From Coq Require Import ZArith Bool List Lia.
From DV Require Import Prelude Cost Grid Dtw DtwSpec DtwFacts DtwProps Band BandTie PyDist.
From DVGen Require Import Gen_dtw.
Import ListNotations.
Open Scope Z_scope.

(* ------------------------------------------------------------ list update facts *)
Lemma upd_nat_length {A} (l : list A) q v : length (upd_nat l q v) = length l.
Proof. revert q; induction l as [|x t IH]; intros q; destruct q; simpl; auto. Qed.

Lemma nth_upd_nat_eq {A} (l : list A) q v d : (q < length l)%nat -> nth q (upd_nat l q v) d = v.
Proof. revert q; induction l as [|x t IH]; intros q H; simpl in H; [lia|]. destruct q; simpl; [reflexivity|apply IH; lia]. Qed.

Lemma nth_upd_nat_neq {A} (l : list A) q q' v d : q <> q' -> nth q' (upd_nat l q v) d = nth q' l d.
Proof.
  revert q q'; induction l as [|x t IH]; intros q q' H; destruct q; destruct q'; simpl; auto; try lia.
Qed.

Lemma nth_map_seq {A} (f : nat -> A) n q d : (q < n)%nat -> nth q (map f (seq 0 n)) d = f q.
Proof.
  intros H. rewrite (nth_indep (map f (seq 0 n)) d (f 0%nat)) by (rewrite map_length, seq_length; exact H).
  rewrite (map_nth f (seq 0 n) 0%nat q). rewrite seq_nth by exact H. reflexivity.
Qed.

Lemma nth_repeat_inf q n : nth q (repeat Inf n) Inf = Inf.
Proof. revert q; induction n as [|n IH]; intros q; destruct q; simpl; auto. Qed.

Section Refine.
Variable u : usettings.
Variables s1 s2 : list point.
Let r := length s1.
Let c := length s2.
Let w := eff_window u r c.
Let zr := Z.of_nat r.
Let zc := Z.of_nat c.
Hypothesis Hw : 1 <= w.
Hypothesis Hr : (1 <= r)%nat.
Hypothesis Hc : (1 <= c)%nat.

Let LL := L u s1 s2.
Let sk := skip_of u s1 s2.
Let jS := js u s1 s2.
Let jE := je u s1 s2.
Let M := Mfun u s1 s2.

(* ------------------------------------------------------------ geometry (all by lia over the regenerated terms) *)
Lemma geom_row i : (i < r)%nat ->
  (jS i < jE i)%nat /\ (jE i <= c)%nat /\ (sk i <= jS i)%nat /\ (jE i - sk i < LL)%nat /\ (1 <= LL)%nat /\
  (LL <= c + 1)%nat.
Proof.
  intros Hi. unfold jS, jE, sk, LL, js, je, skip_of, L, eff_skip, py_dist_j_start, py_dist_j_end, py_dist_skip, py_dist_length.
  fold r c w zr zc.
  destruct (Z.eqb_spec (Z.min (zc + 1) (Z.abs (zr - zc) + 2 * (w - 1) + 1 + 1 + 1)) (zc + 1)); unfold zr, zc in *; lia.
Qed.

Lemma geom_succ i : (S i < r)%nat ->
  (jS i <= jS (S i))%nat /\ (sk i <= sk (S i))%nat /\ (jE (S i) <= jE i + 1)%nat /\ (jE i <= jE (S i))%nat /\
  (jE (S i) - sk i < LL)%nat /\ (sk i <= jS (S i))%nat.
Proof.
  intros Hi. unfold jS, jE, sk, LL, js, je, skip_of, L, eff_skip, py_dist_j_start, py_dist_j_end, py_dist_skip, py_dist_length.
  fold r c w zr zc. replace (Z.of_nat (S i)) with (Z.of_nat i + 1) by lia.
  destruct (Z.eqb_spec (Z.min (zc + 1) (Z.abs (zr - zc) + 2 * (w - 1) + 1 + 1 + 1)) (zc + 1)); unfold zr, zc in *; lia.
Qed.

Lemma geom_first : (jS 0 = 0)%nat /\ (sk 0 = 0)%nat /\ (jE 0 < LL)%nat.
Proof.
  unfold jS, jE, sk, LL, js, je, skip_of, L, eff_skip, py_dist_j_start, py_dist_j_end, py_dist_skip, py_dist_length.
  fold r c w zr zc. simpl Z.of_nat.
  destruct (Z.eqb_spec (Z.min (zc + 1) (Z.abs (zr - zc) + 2 * (w - 1) + 1 + 1 + 1)) (zc + 1)); unfold zr, zc in *; lia.
Qed.

Lemma geom_last : jE (r - 1) = c.
Proof.
  unfold jE, je, py_dist_j_end. fold r c w zr zc. unfold zr, zc. lia.
Qed.

Lemma band_iff i j : (i < r)%nat ->
  in_band r c w i j = true <-> (jS i <= j < jE i)%nat.
Proof.
  intros Hi. pose proof (in_band_iff r c w i j) as HB.
  assert (E : band_lo (Z.of_nat r) (Z.of_nat c) w (Z.of_nat i) <= Z.of_nat j < band_hi (Z.of_nat r) (Z.of_nat c) w (Z.of_nat i)
              <-> (jS i <= j < jE i)%nat).
  { unfold jS, jE, js, je, py_dist_j_start, py_dist_j_end, band_lo, band_hi. fold r c w. lia. }
  tauto.
Qed.

(* ------------------------------------------------------------ matrix facts *)
Lemma M_S_S i j : M (S i) (S j) = code_cell (adj_penalty u) (cell u s1 s2 i j) (M i j) (M i (S j)) (M (S i) j).
Proof. unfold M, Mfun. apply Mf_S_S. Qed.

Lemma cell_out i j : (i < r)%nat -> ~ (jS i <= j < jE i)%nat -> cell u s1 s2 i j = Inf.
Proof.
  intros Hi H. unfold cell, sw, sr, sc. fold r c w.
  destruct (in_band r c w i j) eqn:E; [apply band_iff in E; [contradiction|exact Hi]|reflexivity].
Qed.

Lemma M_out i j : (i < r)%nat -> ~ (jS i <= j < jE i)%nat -> M (S i) (S j) = Inf.
Proof. intros Hi H. rewrite M_S_S, (cell_out i j Hi H). reflexivity. Qed.

Lemma cell_in i j : (i < r)%nat -> (jS i <= j < jE i)%nat ->
  cell u s1 s2 i j =
  (if cleb (Fin (pdist (u_inner u) (nth i s1 []) (nth j s2 []))) (adj_max_step u)
   then Fin (pdist (u_inner u) (nth i s1 []) (nth j s2 [])) else Inf).
Proof.
  intros Hi H. unfold cell, sw, sr, sc. fold r c w.
  assert (E : in_band r c w i j = true) by (apply band_iff; assumption). rewrite E. reflexivity.
Qed.

(* ------------------------------------------------------------ what a buffer row holds *)
(* stored window of matrix row a: columns wlo..whi, at positions column - wskip *)
Definition wlo (a : nat) : nat := match a with O => 0 | S i => jS i end.
Definition whi (a : nat) : nat := match a with O => LL - 1 | S i => jE i end.
Definition wskip (a : nat) : nat := match a with O => 0 | S i => sk i end.

Definition RowOK (a : nat) (row : list cost) : Prop :=
  length row = LL /\
  forall q, (q < LL)%nat ->
    rget row q = (if (wlo a <=? q + wskip a)%nat && (q + wskip a <=? whi a)%nat then M a (q + wskip a) else Inf).

Lemma row_init_ok : RowOK 0 (row_init u s1 s2).
Proof.
  split.
  - unfold row_init. rewrite map_length, seq_length. reflexivity.
  - intros q Hq. unfold rget, row_init. fold LL.
    rewrite nth_map_seq by exact Hq. simpl wlo. simpl whi. simpl wskip. rewrite Nat.add_0_r.
    assert (E : ((0 <=? q)%nat && (q <=? LL - 1)%nat) = true) by (apply andb_true_iff; split; apply Nat.leb_le; lia).
    rewrite E. reflexivity.
Qed.

(* the two cells of the previous matrix row that cell (i, j) reads are where the buffer holds them *)
Lemma prev_geom i j : (i < r)%nat -> (jS i <= j < jE i)%nat ->
  (wskip i <= j)%nat /\ (S j - wskip i < LL)%nat /\ (wlo i <= j <= whi i)%nat /\
  ((wlo i <= S j <= whi i)%nat \/ M i (S j) = Inf).
Proof.
  intros Hi Hj. destruct (geom_row i Hi) as (G1 & G2 & G3 & G4 & G5 & G6).
  destruct i as [|i'].
  - destruct geom_first as (F1 & F2 & F3). cbn [wlo whi wskip]. repeat split; lia.
  - assert (Hi' : (S i' < r)%nat) by lia.
    destruct (geom_succ i' Hi') as (S1 & S2 & S3 & S4 & S5 & S6).
    destruct (geom_row i' ltac:(lia)) as (P1 & P2 & P3 & P4 & P5 & P6).
    cbn [wlo whi wskip]. repeat split; try lia.
    destruct (Nat.le_gt_cases (S j) (jE i')) as [Hle|Hgt]; [left; lia|right].
    apply M_out; lia.
Qed.

(* ------------------------------------------------------------ one row *)
Section OneRow.
Variable i : nat.
Hypothesis Hi : (i < r)%nat.
Variable prev : list cost.
Hypothesis Hprev : RowOK i prev.

(* reading the previous matrix row at a column k that a cell of row i needs *)
Lemma prev_read k : (wskip i <= k)%nat -> (k - wskip i < LL)%nat ->
  ((wlo i <= k <= whi i)%nat \/ M i k = Inf) ->
  rget prev (k - wskip i) = M i k.
Proof.
  intros H1 H2 H3. destruct Hprev as [_ Hp]. rewrite (Hp _ H2).
  replace (k - wskip i + wskip i)%nat with k by lia.
  destruct ((wlo i <=? k)%nat && (k <=? whi i)%nat) eqn:E; [reflexivity|].
  destruct H3 as [H3|H3]; [|symmetry; exact H3].
  exfalso. apply andb_false_iff in E. destruct E as [E|E]; apply Nat.leb_gt in E; lia.
Qed.

(* the row under construction, after the columns js..j-1 have been processed *)
Definition CurOK (j : nat) (cur : list cost) : Prop :=
  length cur = LL /\
  forall q, (q < LL)%nat ->
    rget cur q = (if (jS i <=? q + sk i)%nat && (q + sk i <=? j)%nat then M (S i) (q + sk i) else Inf).

Lemma M_left_border : M (S i) (jS i) =
  (if negb (psi_1b u =? 0)%nat && (jS i =? 0)%nat && (i <? psi_1b u)%nat then Fin 0 else Inf).
Proof.
  destruct (jS i) as [|k] eqn:E.
  - unfold M, Mfun. rewrite Mf_S_0. unfold b1. simpl.
    destruct (psi_1b u) as [|p]; simpl; [reflexivity|].
    destruct (Nat.leb_spec i p); destruct (Nat.ltb_spec i (S p)); try lia; reflexivity.
  - rewrite M_out; [|exact Hi|rewrite E; lia].
    rewrite andb_false_r. reflexivity.
Qed.

Lemma cur_init_ok :
  CurOK (jS i)
    (if negb (psi_1b u =? 0)%nat && (jS i =? 0)%nat && (i <? psi_1b u)%nat then upd_nat (repeat Inf LL) 0 (Fin 0)
     else repeat Inf LL).
Proof.
  destruct (geom_row i Hi) as (G1 & G2 & G3 & G4 & G5 & G6).
  split.
  - destruct (negb (psi_1b u =? 0)%nat && (jS i =? 0)%nat && (i <? psi_1b u)%nat);
      [rewrite upd_nat_length|]; apply repeat_length.
  - intros q Hq.
    destruct ((jS i <=? q + sk i)%nat && (q + sk i <=? jS i)%nat) eqn:E.
    + apply andb_true_iff in E. destruct E as [E1 E2]. apply Nat.leb_le in E1. apply Nat.leb_le in E2.
      assert (Eq : (q + sk i = jS i)%nat) by lia. rewrite Eq. rewrite M_left_border.
      destruct (negb (psi_1b u =? 0)%nat && (jS i =? 0)%nat && (i <? psi_1b u)%nat) eqn:B.
      * apply andb_true_iff in B. destruct B as [B _]. apply andb_true_iff in B. destruct B as [_ B].
        apply Nat.eqb_eq in B. assert (q = 0)%nat by lia. subst q.
        unfold rget. apply nth_upd_nat_eq. rewrite repeat_length. lia.
      * unfold rget. apply nth_repeat_inf.
    + destruct (negb (psi_1b u =? 0)%nat && (jS i =? 0)%nat && (i <? psi_1b u)%nat) eqn:B.
      * apply andb_true_iff in B. destruct B as [B _]. apply andb_true_iff in B. destruct B as [_ B].
        apply Nat.eqb_eq in B.
        unfold rget. rewrite nth_upd_nat_neq; [apply nth_repeat_inf|].
        intros Hq0. subst q. apply andb_false_iff in E. destruct E as [E|E]; apply Nat.leb_gt in E; lia.
      * unfold rget. apply nth_repeat_inf.
Qed.

(* neighbours of the cell (i, j) as the previous row and the current row hold them *)
Lemma step_ok j cur : (jS i <= j < jE i)%nat -> CurOK j cur ->
  CurOK (S j) (step_j u s1 s2 i (wskip i) (sk i) prev cur j).
Proof.
  intros Hj [Hlen Hcur].
  destruct (geom_row i Hi) as (G1 & G2 & G3 & G4 & G5 & G6).
  assert (Hpos : (j + 1 - sk i < LL)%nat) by lia.
  (* the three reads *)
  assert (Rleft : rget cur (j - sk i) = M (S i) j).
  { rewrite Hcur by lia. replace (j - sk i + sk i)%nat with j by lia.
    assert (E : ((jS i <=? j)%nat && (j <=? j)%nat) = true) by (apply andb_true_iff; split; apply Nat.leb_le; lia).
    rewrite E. reflexivity. }
  destruct (prev_geom i j Hi Hj) as (Q1 & Q2 & Q3 & Q4).
  assert (Rd : rget prev (j - wskip i) = M i j) by (apply prev_read; [lia|lia|left; exact Q3]).
  assert (Ru : rget prev (j + 1 - wskip i) = M i (S j)).
  { replace (j + 1)%nat with (S j) by lia. apply prev_read; [lia|lia|exact Q4]. }
  unfold step_j.
  pose proof (M_S_S i j) as HM. rewrite (cell_in i j Hi Hj) in HM.
  destruct (cleb (Fin (pdist (u_inner u) (nth i s1 []) (nth j s2 []))) (adj_max_step u)) eqn:Ems; cbn [negb].
  - (* the cell is computed *)
    split; [rewrite upd_nat_length; exact Hlen|].
    intros q Hq. destruct (Nat.eq_dec q (j + 1 - sk i)) as [->|Hne].
    + unfold rget. rewrite nth_upd_nat_eq by lia. fold (rget prev (j - wskip i)) (rget prev (j + 1 - wskip i)) (rget cur (j - sk i)).
      rewrite Rd, Ru, Rleft. replace (j + 1 - sk i + sk i)%nat with (S j) by lia.
      assert (E : ((jS i <=? S j)%nat && (S j <=? S j)%nat) = true) by (apply andb_true_iff; split; apply Nat.leb_le; lia).
      rewrite E. symmetry. exact HM.
    + unfold rget. rewrite nth_upd_nat_neq by lia. fold (rget cur q). rewrite Hcur by exact Hq.
      destruct (Nat.leb_spec (jS i) (q + sk i)); destruct (Nat.leb_spec (q + sk i) j);
        destruct (Nat.leb_spec (q + sk i) (S j)); simpl; try reflexivity; try lia.
  - (* d > max_step: continue; the cell keeps its initial inf, and so does the matrix *)
    split; [exact Hlen|].
    intros q Hq. rewrite Hcur by exact Hq.
    destruct (Nat.eq_dec (q + sk i) (S j)) as [Eq|Hne].
    + rewrite Eq.
      assert (E1 : ((jS i <=? S j)%nat && (S j <=? j)%nat) = false)
        by (apply andb_false_iff; right; apply Nat.leb_gt; lia).
      assert (E2 : ((jS i <=? S j)%nat && (S j <=? S j)%nat) = true)
        by (apply andb_true_iff; split; apply Nat.leb_le; lia).
      rewrite E1, E2. rewrite HM. reflexivity.
    + destruct (Nat.leb_spec (jS i) (q + sk i)); destruct (Nat.leb_spec (q + sk i) j);
        destruct (Nat.leb_spec (q + sk i) (S j)); simpl; try reflexivity; try lia.
Qed.

Lemma fold_ok : forall n j cur, (jS i <= j)%nat -> (j + n <= jE i)%nat -> CurOK j cur ->
  CurOK (j + n) (fold_left (step_j u s1 s2 i (wskip i) (sk i) prev) (seq j n) cur).
Proof.
  induction n as [|n IH]; intros j cur H1 H2 Hc0; simpl; [rewrite Nat.add_0_r; exact Hc0|].
  replace (j + S n)%nat with (S j + n)%nat by lia. apply IH; [lia|lia|]. apply step_ok; [lia|exact Hc0].
Qed.

Lemma row_step_ok : RowOK (S i) (row_step u s1 s2 i (wskip i) prev).
Proof.
  destruct (geom_row i Hi) as (G1 & G2 & G3 & G4 & G5 & G6).
  unfold row_step. fold LL sk jS jE.
  pose proof (fold_ok (jE i - jS i) (jS i) _ (le_n _) ltac:(lia) cur_init_ok) as [Hl Hq].
  replace (jS i + (jE i - jS i))%nat with (jE i) in Hq by lia.
  split; [exact Hl|]. intros q Hq'. simpl wlo. simpl whi. simpl wskip. apply Hq. exact Hq'.
Qed.
End OneRow.

(* ------------------------------------------------------------ all rows *)
(* psi_shortest after the first n rows, in terms of the matrix *)
Fixpoint ps_spec (n : nat) : cost :=
  match n with
  | O => Inf
  | S i => if negb (psi_1e u =? 0)%nat && (jE i =? c)%nat && (r - 1 - i <=? psi_1e u)%nat
           then cmin (ps_spec i) (M (S i) c) else ps_spec i
  end.

Lemma rows_ok : forall n, (n <= r)%nat ->
  let '(cur, skv, ps) := rows u s1 s2 n in RowOK n cur /\ skv = wskip n /\ ps = ps_spec n.
Proof.
  induction n as [|i IH]; intros Hn.
  - simpl. split; [apply row_init_ok|]. split; reflexivity.
  - specialize (IH ltac:(lia)). cbn [rows]. destruct (rows u s1 s2 i) as [[prev skp] ps].
    destruct IH as (Hp & Hs & Hps). subst skp ps.
    assert (Hi : (i < r)%nat) by lia.
    pose proof (row_step_ok i Hi prev Hp) as Hrow.
    split; [exact Hrow|]. split; [reflexivity|].
    cbn [ps_spec]. fold r c. fold jE.
    destruct (negb (psi_1e u =? 0)%nat && (jE i =? c)%nat && (r - 1 - i <=? psi_1e u)%nat) eqn:B; [|reflexivity].
    f_equal. destruct Hrow as [_ Hq]. destruct (geom_row i Hi) as (G1 & G2 & G3 & G4 & G5 & G6).
    apply andb_true_iff in B. destruct B as [B _]. apply andb_true_iff in B. destruct B as [_ B]. apply Nat.eqb_eq in B.
    fold sk. rewrite Hq by (fold jE; lia). simpl wlo. simpl whi. simpl wskip.
    replace (jE i - sk i + sk i)%nat with (jE i) by lia.
    assert (E : ((jS i <=? jE i)%nat && (jE i <=? jE i)%nat) = true) by (apply andb_true_iff; split; apply Nat.leb_le; lia).
    rewrite E, B. reflexivity.
Qed.


(* ------------------------------------------------------------ the value read at the end *)
Lemma cmin_idem a : cmin a a = a.
Proof. unfold cmin. destruct (cleb a a); reflexivity. Qed.

Lemma cmin_list_char l v : (forall x, In x l -> cle v x) -> (v = Inf \/ In v l) -> v = cmin_list l.
Proof.
  intros H1 H2. apply cle_antisym.
  - destruct (cmin_list_in l) as [E|E]; [rewrite E; apply cle_inf|apply H1; exact E].
  - destruct H2 as [->|H2]; [apply cle_inf|apply cmin_list_le; exact H2].
Qed.

(* a cell of the last column that lies outside the band is infinite *)
Lemma M_lastcol_out i : (i < r)%nat -> jE i <> c -> M (S i) c = Inf.
Proof.
  intros Hi Hne. destruct (geom_row i Hi) as (G1 & G2 & G3 & G4 & G5 & G6).
  replace c with (S (c - 1)) by lia. apply M_out; [exact Hi|lia].
Qed.

Lemma ps_spec_le : forall n, (n <= r)%nat -> forall i, (i < n)%nat ->
  psi_1e u <> 0%nat -> (r - 1 - i <= psi_1e u)%nat -> cle (ps_spec n) (M (S i) c).
Proof.
  induction n as [|n IH]; intros Hn i Hi Hp Hk; [lia|].
  cbn [ps_spec].
  destruct (Nat.eq_dec i n) as [->|Hne].
  - destruct (Nat.eq_dec (jE n) c) as [E|E].
    + assert (B : (negb (psi_1e u =? 0)%nat && (jE n =? c)%nat && (r - 1 - n <=? psi_1e u)%nat) = true).
      { apply andb_true_iff; split; [apply andb_true_iff; split|].
        - apply negb_true_iff. apply Nat.eqb_neq. exact Hp.
        - apply Nat.eqb_eq. exact E.
        - apply Nat.leb_le. exact Hk. }
      rewrite B. apply cmin_r.
    + rewrite (M_lastcol_out n ltac:(lia) E). apply cle_inf.
  - assert (Hle : cle (ps_spec n) (M (S i) c)) by (apply IH; lia).
    destruct (negb (psi_1e u =? 0)%nat && (jE n =? c)%nat && (r - 1 - n <=? psi_1e u)%nat); [|exact Hle].
    eapply cle_trans; [apply cmin_l|exact Hle].
Qed.

Lemma ps_spec_in : forall n, (n <= r)%nat ->
  ps_spec n = Inf \/ exists i, (i < n)%nat /\ psi_1e u <> 0%nat /\ (r - 1 - i <= psi_1e u)%nat /\ ps_spec n = M (S i) c.
Proof.
  induction n as [|n IH]; intros Hn; [left; reflexivity|].
  cbn [ps_spec].
  destruct (negb (psi_1e u =? 0)%nat && (jE n =? c)%nat && (r - 1 - n <=? psi_1e u)%nat) eqn:B.
  - destruct (cmin_cases (ps_spec n) (M (S n) c)) as [E|E]; rewrite E.
    + destruct (IH ltac:(lia)) as [H|(i & H1 & H2 & H3 & H4)]; [left; exact H|right].
      exists i. repeat split; try assumption; lia.
    + right. exists n. apply andb_true_iff in B. destruct B as [B B3]. apply andb_true_iff in B. destruct B as [B1 B2].
      apply negb_true_iff in B1. apply Nat.eqb_neq in B1. apply Nat.leb_le in B3.
      repeat split; try assumption; lia.
  - destruct (IH ltac:(lia)) as [H|(i & H1 & H2 & H3 & H4)]; [left; exact H|right].
    exists i. repeat split; try assumption; lia.
Qed.

(* the spec's two candidate lists *)
Definition candA : list cost := map (fun k => M (r - k) c) (seq 0 (S (Nat.min (psi_1e u) (r - 1)))).
Definition candB : list cost := map (fun k => M r (c - k)) (seq 0 (S (Nat.min (psi_2e u) (c - 1)))).

Lemma dtw_value_cands : dtw_value u s1 s2 = cmin_list (candA ++ candB).
Proof.
  rewrite dtw_value_Mfun. unfold end_cands, sr, sc. fold r c. rewrite map_app, !map_map. reflexivity.
Qed.

Lemma in_candA x : In x candA <-> exists k, (k <= psi_1e u)%nat /\ (k <= r - 1)%nat /\ x = M (r - k) c.
Proof.
  unfold candA. rewrite in_map_iff. split.
  - intros (k & <- & Hk). apply in_seq in Hk. exists k. repeat split; lia.
  - intros (k & H1 & H2 & ->). exists k. split; [reflexivity|]. apply in_seq. lia.
Qed.

Lemma in_candB x : In x candB <-> exists k, (k <= psi_2e u)%nat /\ (k <= c - 1)%nat /\ x = M r (c - k).
Proof.
  unfold candB. rewrite in_map_iff. split.
  - intros (k & <- & Hk). apply in_seq in Hk. exists k. repeat split; lia.
  - intros (k & H1 & H2 & ->). exists k. split; [reflexivity|]. apply in_seq. lia.
Qed.

Section LastRow.
Variable i : nat.
Hypothesis Hi : S i = r.
Variable cur : list cost.
Hypothesis Hcur : RowOK (S i) cur.
(* the empty alignment is not admitted: begin relaxation of series 1 and end relaxation of series 2 do not
   together cover everything (the code would return 0 there; dtw_value never looks at the border) *)
Hypothesis Hpsi : (psi_1b u < r)%nat \/ (psi_2e u < c)%nat.

Let ic := (c - sk i)%nat.

Lemma last_geom : (jS i < c)%nat /\ jE i = c /\ (sk i <= jS i)%nat /\ (ic < LL)%nat.
Proof.
  assert (Hi' : (i < r)%nat) by lia. destruct (geom_row i Hi') as (G1 & G2 & G3 & G4 & G5 & G6).
  assert (E : jE i = c) by (replace i with (r - 1)%nat by lia; apply geom_last).
  unfold ic. repeat split; lia.
Qed.

Lemma last_cell : rget cur ic = M r c.
Proof.
  destruct last_geom as (G1 & G2 & G3 & G4). destruct Hcur as [_ Hq].
  rewrite (Hq ic G4). cbn [wlo whi wskip].
  replace (ic + sk i)%nat with c by (unfold ic; lia).
  assert (E : ((jS i <=? c)%nat && (c <=? jE i)%nat) = true) by (apply andb_true_iff; split; apply Nat.leb_le; lia).
  rewrite E, Hi. reflexivity.
Qed.

Lemma M_lastrow_left col : (1 <= col)%nat -> (col <= jS i)%nat -> M r col = Inf.
Proof.
  intros H1 H2. rewrite <- Hi. replace col with (S (col - 1)) by lia. apply M_out; lia.
Qed.

Lemma slice_le k : (k <= psi_2e u)%nat -> (k <= c - 1)%nat ->
  cle (slice_min cur (ic - psi_2e u) ic) (M r (c - k)).
Proof.
  intros H1 H2. destruct last_geom as (G1 & G2 & G3 & G4). destruct Hcur as [_ Hq].
  destruct (Nat.le_gt_cases (c - k) (jS i)) as [Hout|Hin].
  - rewrite M_lastrow_left by lia. apply cle_inf.
  - unfold slice_min. apply cmin_list_le. apply in_map_iff. exists (c - k - sk i)%nat. split.
    + rewrite (Hq (c - k - sk i)%nat) by (unfold ic in G4; lia). cbn [wlo whi wskip].
      replace (c - k - sk i + sk i)%nat with (c - k)%nat by lia.
      assert (E : ((jS i <=? c - k)%nat && (c - k <=? jE i)%nat) = true)
        by (apply andb_true_iff; split; apply Nat.leb_le; lia).
      rewrite E, Hi. reflexivity.
    + apply in_seq. unfold ic. lia.
Qed.

Lemma slice_in : slice_min cur (ic - psi_2e u) ic = Inf \/
  exists k, (k <= psi_2e u)%nat /\ (k <= c - 1)%nat /\ slice_min cur (ic - psi_2e u) ic = M r (c - k).
Proof.
  destruct last_geom as (G1 & G2 & G3 & G4). destruct Hcur as [_ Hq].
  unfold slice_min. destruct (cmin_list_in (map (rget cur) (seq (ic - psi_2e u) (ic + 1 - (ic - psi_2e u))))) as [E|E];
    [left; exact E|].
  apply in_map_iff in E. destruct E as (q & Eq & Hin). apply in_seq in Hin.
  rewrite <- Eq. rewrite (Hq q) by lia. cbn [wlo whi wskip].
  destruct ((jS i <=? q + sk i)%nat && (q + sk i <=? jE i)%nat) eqn:B; [|left; reflexivity].
  apply andb_true_iff in B. destruct B as [B1 B2]. apply Nat.leb_le in B1. apply Nat.leb_le in B2.
  destruct (Nat.eq_dec (q + sk i) 0) as [Z|NZ].
  - (* column 0 of the last row: the border, infinite unless psi_1b covers all of series 1 *)
    left. rewrite Z. unfold M, Mfun. rewrite Mf_S_0. unfold b1.
    destruct Hpsi as [Hp|Hp]; [|unfold ic in Hin; lia].
    destruct (psi_1b u) as [|p]; cbn; [reflexivity|].
    destruct (Nat.leb_spec i p); [lia|reflexivity].
  - right. exists (c - (q + sk i))%nat. unfold ic in Hin. repeat split; try lia.
    rewrite Hi. f_equal. lia.
Qed.
End LastRow.

Hypothesis Hpsi : (psi_1b u < r)%nat \/ (psi_2e u < c)%nat.

(* whatever row the buffer holds at the end, if it holds the last matrix row the value read is the spec value *)
Lemma final_value_spec cur : RowOK r cur -> final_value u s2 cur (wskip r) (ps_spec r) = dtw_value u s1 s2.
Proof.
  intros Hrow. rewrite dtw_value_cands. unfold final_value. cbv zeta. fold r c.
  assert (Ei : S (r - 1) = r) by lia.
  replace (wskip r) with (sk (r - 1)) by (rewrite <- Ei at 2; reflexivity).
  rewrite <- Ei in Hrow.
  pose proof (last_cell (r - 1) Ei cur Hrow Hpsi) as Hlast.
  pose proof (slice_le (r - 1) Ei cur Hrow Hpsi) as Hsle.
  pose proof (slice_in (r - 1) Ei cur Hrow Hpsi) as Hsin.
  pose proof (ps_spec_le r (le_n _)) as Hple. pose proof (ps_spec_in r (le_n _)) as Hpin.
  assert (Hrk : forall k, (k <= r - 1)%nat -> (r - k = S (r - 1 - k))%nat) by (intros; lia).
  destruct (Nat.eq_dec (psi_1e u) 0) as [E1|E1]; destruct (Nat.eq_dec (psi_2e u) 0) as [E2|E2].
  - (* no end relaxation *)
    rewrite E1, E2. cbn [Nat.eqb andb]. rewrite Hlast.
    apply cmin_list_char.
    + intros x Hx. apply in_app_iff in Hx. destruct Hx as [Hx|Hx].
      * apply in_candA in Hx. destruct Hx as (k & H1 & H2 & ->). replace k with 0%nat by lia.
        rewrite Nat.sub_0_r. apply cle_refl.
      * apply in_candB in Hx. destruct Hx as (k & H1 & H2 & ->). replace k with 0%nat by lia.
        rewrite Nat.sub_0_r. apply cle_refl.
    + right. apply in_app_iff. left. apply in_candA. exists 0%nat. rewrite Nat.sub_0_r. repeat split; lia.
  - (* only series 2 relaxed at the end *)
    assert (B1 : (psi_1e u =? 0)%nat = true) by (apply Nat.eqb_eq; exact E1).
    assert (B2 : (psi_2e u =? 0)%nat = false) by (apply Nat.eqb_neq; exact E2).
    rewrite B1, B2. cbn [andb negb].
    assert (Eps : ps_spec r = Inf).
    { destruct Hpin as [H|(i & _ & H & _)]; [exact H|contradiction]. }
    rewrite Eps, cmin_inf_r.
    apply cmin_list_char.
    + intros x Hx. apply in_app_iff in Hx. destruct Hx as [Hx|Hx].
      * apply in_candA in Hx. destruct Hx as (k & H1 & H2 & ->). replace k with 0%nat by lia.
        rewrite Nat.sub_0_r. pose proof (Hsle 0%nat ltac:(lia) ltac:(lia)) as H0. rewrite Nat.sub_0_r in H0. exact H0.
      * apply in_candB in Hx. destruct Hx as (k & H1 & H2 & ->). apply Hsle; assumption.
    + destruct Hsin as [H|(k & H1 & H2 & H3)]; [left; exact H|right].
      apply in_app_iff. right. apply in_candB. exists k. repeat split; assumption.
  - (* only series 1 relaxed at the end *)
    assert (B1 : (psi_1e u =? 0)%nat = false) by (apply Nat.eqb_neq; exact E1).
    assert (B2 : (psi_2e u =? 0)%nat = true) by (apply Nat.eqb_eq; exact E2).
    rewrite B1, B2. cbn [andb negb]. rewrite Hlast.
    apply cmin_list_char.
    + intros x Hx. apply in_app_iff in Hx. destruct Hx as [Hx|Hx].
      * apply in_candA in Hx. destruct Hx as (k & H1 & H2 & ->).
        eapply cle_trans; [apply cmin_r|]. rewrite (Hrk k H2). apply Hple; [lia|exact E1|lia].
      * apply in_candB in Hx. destruct Hx as (k & H1 & H2 & ->). replace k with 0%nat by lia.
        rewrite Nat.sub_0_r. apply cmin_l.
    + destruct (cmin_cases (M r c) (ps_spec r)) as [E|E]; rewrite E.
      * right. apply in_app_iff. left. apply in_candA. exists 0%nat. rewrite Nat.sub_0_r. repeat split; lia.
      * destruct Hpin as [H|(i & H1 & H2 & H3 & H4)]; [left; exact H|right].
        apply in_app_iff. left. apply in_candA. exists (r - 1 - i)%nat. repeat split; try lia.
        rewrite H4. f_equal. lia.
  - (* both *)
    assert (B1 : (psi_1e u =? 0)%nat = false) by (apply Nat.eqb_neq; exact E1).
    assert (B2 : (psi_2e u =? 0)%nat = false) by (apply Nat.eqb_neq; exact E2).
    rewrite B1, B2. cbn [andb negb].
    apply cmin_list_char.
    + intros x Hx. apply in_app_iff in Hx. destruct Hx as [Hx|Hx].
      * apply in_candA in Hx. destruct Hx as (k & H1 & H2 & ->).
        eapply cle_trans; [apply cmin_r|]. rewrite (Hrk k H2). apply Hple; [lia|exact E1|lia].
      * apply in_candB in Hx. destruct Hx as (k & H1 & H2 & ->).
        eapply cle_trans; [apply cmin_l|]. apply Hsle; assumption.
    + destruct (cmin_cases (slice_min cur (c - sk (r - 1) - psi_2e u) (c - sk (r - 1))) (ps_spec r)) as [E|E]; rewrite E.
      * destruct Hsin as [H|(k & H1 & H2 & H3)]; [left; exact H|right].
        apply in_app_iff. right. apply in_candB. exists k. repeat split; assumption.
      * destruct Hpin as [H|(i & H1 & H2 & H3 & H4)]; [left; exact H|right].
        apply in_app_iff. left. apply in_candA. exists (r - 1 - i)%nat. repeat split; try lia.
        rewrite H4. f_equal. lia.
Qed.

Theorem dist_value_is_dtw_value : dist_value u s1 s2 = dtw_value u s1 s2.
Proof.
  unfold dist_value. fold r.
  pose proof (rows_ok r (le_n _)) as HR. destruct (rows u s1 s2 r) as [[cur skv] ps].
  destruct HR as (Hrow & Hs & Hps). subst skv ps. apply final_value_spec. exact Hrow.
Qed.

(* the model of the code, written after the code = the specification-level model *)
Theorem dist_model_is_dtw_model : dist_model u s1 s2 = dtw_model u s1 s2.
Proof. unfold dist_model, dtw_model. rewrite dist_value_is_dtw_value. reflexivity. Qed.

End Refine.
