(* Refinement proof: the rolling-buffer model of dtw.distance (PyDist.dist_model,
   written after the code, with the regenerated index arithmetic) computes the
   specification-level value DtwSpec.dtw_model, for every pair of series and
   every setting in the guard: window >= 1, non-empty series, non-degenerate psi. *)
From Coq Require Import ZArith Bool List Lia.
From DV Require Import Prelude Cost Grid Dtw DtwSpec DtwFacts DtwProps Band BandTie PyDist.
From DVGen Require Import Gen_dtw.
Import ListNotations.
Open Scope Z_scope.

(* ------------------------------------------------------------ list update facts *)
Lemma upd_nat_length {A} (l : list A) q v : length (upd_nat l q v) = length l.
Proof. revert q; induction l as [|x t IH]; intros q; destruct q; simpl; auto. Qed.

Lemma nth_upd_nat_eq {A} (l : list A) q v d : (q < length l)%nat -> nth q (upd_nat l q v) d = v.
Proof. revert q; induction l as [|x t IH]; intros q H; simpl in H; [lia|]. destruct q; simpl; [reflexivity|apply IH; lia]. Qed.

Lemma nth_upd_nat_neq {A} (l : list A) q q' v d : q <> q' -> nth q' (upd_nat l q v) d = nth q' l d.
Proof.
  revert q q'; induction l as [|x t IH]; intros q q' H; destruct q; destruct q'; simpl; auto; try lia.
  apply IH. lia.
Qed.

Lemma nth_repeat_inf q n : nth q (repeat Inf n) Inf = Inf.
Proof. revert q; induction n as [|n IH]; intros q; destruct q; simpl; auto. Qed.

Section Refine.
Variable u : usettings.
Variables s1 s2 : list point.
Let r := length s1.
Let c := length s2.
Let w := eff_window u r c.
Let zr := Z.of_nat r.
Let zc := Z.of_nat c.
Hypothesis Hw : 1 <= w.
Hypothesis Hr : (1 <= r)%nat.
Hypothesis Hc : (1 <= c)%nat.

Let LL := L u s1 s2.
Let sk := skip_of u s1 s2.
Let jS := js u s1 s2.
Let jE := je u s1 s2.
Let M := Mfun u s1 s2.

(* ------------------------------------------------------------ geometry (all by lia over the regenerated terms) *)
Lemma geom_row i : (i < r)%nat ->
  (jS i < jE i)%nat /\ (jE i <= c)%nat /\ (sk i <= jS i)%nat /\ (jE i - sk i < LL)%nat /\ (1 <= LL)%nat /\
  (LL <= c + 1)%nat.
Proof.
  intros Hi. unfold jS, jE, sk, LL, js, je, skip_of, L, eff_skip, py_dist_j_start, py_dist_j_end, py_dist_skip, py_dist_length.
  fold r c w zr zc.
  destruct (Z.eqb_spec (Z.min (zc + 1) (Z.abs (zr - zc) + 2 * (w - 1) + 1 + 1 + 1)) (zc + 1)); unfold zr, zc in *; lia.
Qed.

Lemma geom_succ i : (S i < r)%nat ->
  (jS i <= jS (S i))%nat /\ (sk i <= sk (S i))%nat /\ (jE (S i) <= jE i + 1)%nat /\ (jE i <= jE (S i))%nat /\
  (jE (S i) - sk i < LL)%nat /\ (sk i <= jS (S i))%nat.
Proof.
  intros Hi. unfold jS, jE, sk, LL, js, je, skip_of, L, eff_skip, py_dist_j_start, py_dist_j_end, py_dist_skip, py_dist_length.
  fold r c w zr zc. replace (Z.of_nat (S i)) with (Z.of_nat i + 1) by lia.
  destruct (Z.eqb_spec (Z.min (zc + 1) (Z.abs (zr - zc) + 2 * (w - 1) + 1 + 1 + 1)) (zc + 1)); unfold zr, zc in *; lia.
Qed.

Lemma geom_first : (jS 0 = 0)%nat /\ (sk 0 = 0)%nat /\ (jE 0 < LL)%nat.
Proof.
  unfold jS, jE, sk, LL, js, je, skip_of, L, eff_skip, py_dist_j_start, py_dist_j_end, py_dist_skip, py_dist_length.
  fold r c w zr zc. change (Z.of_nat 0) with 0.
  destruct (Z.eqb_spec (Z.min (zc + 1) (Z.abs (zr - zc) + 2 * (w - 1) + 1 + 1 + 1)) (zc + 1)); unfold zr, zc in *; lia.
Qed.

Lemma geom_last : jE (r - 1) = c.
Proof.
  unfold jE, je, py_dist_j_end. fold r c w zr zc. unfold zr, zc. lia.
Qed.

Lemma band_iff i j : (i < r)%nat ->
  in_band r c w i j = true <-> (jS i <= j < jE i)%nat.
Proof.
  intros Hi. rewrite in_band_iff. unfold jS, jE, js, je. fold r c w zr zc.
  rewrite tie_dist_j_start, tie_dist_j_end. unfold band_lo, band_hi, zr, zc. lia.
Qed.

(* ------------------------------------------------------------ matrix facts *)
Lemma M_S_S i j : M (S i) (S j) = code_cell (adj_penalty u) (cell u s1 s2 i j) (M i j) (M i (S j)) (M (S i) j).
Proof. unfold M, Mfun. apply Mf_S_S. Qed.

Lemma cell_out i j : (i < r)%nat -> ~ (jS i <= j < jE i)%nat -> cell u s1 s2 i j = Inf.
Proof.
  intros Hi H. unfold cell, sw, sr, sc. fold r c w.
  destruct (in_band r c w i j) eqn:E; [apply band_iff in E; [contradiction|exact Hi]|reflexivity].
Qed.

Lemma M_out i j : (i < r)%nat -> ~ (jS i <= j < jE i)%nat -> M (S i) (S j) = Inf.
Proof. intros Hi H. rewrite M_S_S, (cell_out i j Hi H). reflexivity. Qed.

Lemma cell_in i j : (i < r)%nat -> (jS i <= j < jE i)%nat ->
  cell u s1 s2 i j =
  (if cleb (Fin (pdist (u_inner u) (nth i s1 []) (nth j s2 []))) (adj_max_step u)
   then Fin (pdist (u_inner u) (nth i s1 []) (nth j s2 [])) else Inf).
Proof.
  intros Hi H. unfold cell, sw, sr, sc. fold r c w.
  assert (E : in_band r c w i j = true) by (apply band_iff; assumption). rewrite E. reflexivity.
Qed.

(* ------------------------------------------------------------ what a buffer row holds *)
(* stored window of matrix row a: columns wlo..whi, at positions column - wskip *)
Definition wlo (a : nat) : nat := match a with O => 0 | S i => jS i end.
Definition whi (a : nat) : nat := match a with O => LL - 1 | S i => jE i end.
Definition wskip (a : nat) : nat := match a with O => 0 | S i => sk i end.

Definition RowOK (a : nat) (row : list cost) : Prop :=
  length row = LL /\
  forall q, (q < LL)%nat ->
    rget row q = (if (wlo a <=? q + wskip a)%nat && (q + wskip a <=? whi a)%nat then M a (q + wskip a) else Inf).

Lemma row_init_ok : RowOK 0 (row_init u s1 s2).
Proof.
  split.
  - unfold row_init. rewrite map_length, seq_length. reflexivity.
  - intros q Hq. unfold rget, row_init. fold LL.
    rewrite nth_indep with (d' := (fun q0 => if (q0 <=? psi_2b u)%nat then Fin 0 else Inf) 0%nat)
      by (rewrite map_length, seq_length; exact Hq).
    rewrite map_nth, seq_nth by exact Hq. simpl wlo. simpl whi. simpl wskip. rewrite Nat.add_0_r.
    assert (E : ((0 <=? q)%nat && (q <=? LL - 1)%nat) = true) by (apply andb_true_iff; split; apply Nat.leb_le; lia).
    rewrite E. reflexivity.
Qed.

(* ------------------------------------------------------------ one row *)
Section OneRow.
Variable i : nat.
Hypothesis Hi : (i < r)%nat.
Variable prev : list cost.
Hypothesis Hprev : RowOK i prev.

(* reading the previous matrix row at a column k that a cell of row i needs *)
Lemma prev_read k : (wskip i <= k)%nat -> (k - wskip i < LL)%nat ->
  ((wlo i <= k <= whi i)%nat \/ M i k = Inf) ->
  rget prev (k - wskip i) = M i k.
Proof.
  intros H1 H2 H3. destruct Hprev as [_ Hp]. rewrite (Hp _ H2).
  replace (k - wskip i + wskip i)%nat with k by lia.
  destruct ((wlo i <=? k)%nat && (k <=? whi i)%nat) eqn:E; [reflexivity|].
  destruct H3 as [H3|H3]; [|symmetry; exact H3].
  exfalso. apply andb_false_iff in E. destruct E as [E|E]; apply Nat.leb_gt in E; lia.
Qed.

(* the row under construction, after the columns js..j-1 have been processed *)
Definition CurOK (j : nat) (cur : list cost) : Prop :=
  length cur = LL /\
  forall q, (q < LL)%nat ->
    rget cur q = (if (jS i <=? q + sk i)%nat && (q + sk i <=? j)%nat then M (S i) (q + sk i) else Inf).

Lemma M_left_border : M (S i) (jS i) =
  (if negb (psi_1b u =? 0)%nat && (jS i =? 0)%nat && (i <? psi_1b u)%nat then Fin 0 else Inf).
Proof.
  destruct (jS i) as [|k] eqn:E.
  - unfold M, Mfun. rewrite Mf_S_0. unfold b1. simpl.
    destruct (psi_1b u) as [|p]; simpl; [reflexivity|].
    destruct (Nat.leb_spec i p); destruct (Nat.ltb_spec i (S p)); try lia; reflexivity.
  - rewrite M_out; [|exact Hi|rewrite E; lia].
    rewrite andb_false_r. reflexivity.
Qed.

Lemma cur_init_ok :
  CurOK (jS i)
    (if negb (psi_1b u =? 0)%nat && (jS i =? 0)%nat && (i <? psi_1b u)%nat then upd_nat (repeat Inf LL) 0 (Fin 0)
     else repeat Inf LL).
Proof.
  destruct (geom_row i Hi) as (G1 & G2 & G3 & G4 & G5 & G6).
  split.
  - destruct (negb (psi_1b u =? 0)%nat && (jS i =? 0)%nat && (i <? psi_1b u)%nat);
      [rewrite upd_nat_length|]; apply repeat_length.
  - intros q Hq.
    destruct ((jS i <=? q + sk i)%nat && (q + sk i <=? jS i)%nat) eqn:E.
    + apply andb_true_iff in E. destruct E as [E1 E2]. apply Nat.leb_le in E1. apply Nat.leb_le in E2.
      assert (Eq : (q + sk i = jS i)%nat) by lia. rewrite Eq. rewrite M_left_border.
      destruct (negb (psi_1b u =? 0)%nat && (jS i =? 0)%nat && (i <? psi_1b u)%nat) eqn:B.
      * apply andb_true_iff in B. destruct B as [B _]. apply andb_true_iff in B. destruct B as [_ B].
        apply Nat.eqb_eq in B. assert (q = 0)%nat by lia. subst q.
        unfold rget. apply nth_upd_nat_eq. rewrite repeat_length. lia.
      * unfold rget. apply nth_repeat_inf.
    + destruct (negb (psi_1b u =? 0)%nat && (jS i =? 0)%nat && (i <? psi_1b u)%nat) eqn:B.
      * apply andb_true_iff in B. destruct B as [B _]. apply andb_true_iff in B. destruct B as [_ B].
        apply Nat.eqb_eq in B.
        unfold rget. rewrite nth_upd_nat_neq; [apply nth_repeat_inf|].
        intros ->. apply andb_false_iff in E. destruct E as [E|E]; apply Nat.leb_gt in E; lia.
      * unfold rget. apply nth_repeat_inf.
Qed.

(* neighbours of the cell (i, j) as the previous row and the current row hold them *)
Lemma step_ok j cur : (jS i <= j < jE i)%nat -> CurOK j cur ->
  CurOK (S j) (step_j u s1 s2 i (wskip i) (sk i) prev cur j).
Proof.
  intros Hj [Hlen Hcur].
  destruct (geom_row i Hi) as (G1 & G2 & G3 & G4 & G5 & G6).
  assert (Hpos : (j + 1 - sk i < LL)%nat) by lia.
  (* the three reads *)
  assert (Rleft : rget cur (j - sk i) = M (S i) j).
  { rewrite Hcur by lia. replace (j - sk i + sk i)%nat with j by lia.
    assert (E : ((jS i <=? j)%nat && (j <=? j)%nat) = true) by (apply andb_true_iff; split; apply Nat.leb_le; lia).
    rewrite E. reflexivity. }
  assert (Rdiag : rget prev (j - wskip i) = M i j /\ rget prev (j + 1 - wskip i) = M i (S j)).
  { destruct i as [|i'] eqn:Ei.
    - (* first row: the previous row is matrix row 0, stored at offset 0 *)
      destruct geom_first as (F1 & F2 & F3). simpl wskip. rewrite !Nat.sub_0_r.
      split; (rewrite <- (Nat.sub_0_r j) at 1 || idtac).
      + replace j with (j - wskip 0)%nat at 1 by (simpl; lia). apply prev_read; simpl; try lia. left. simpl. lia.
      + replace (j + 1)%nat with (S j - wskip 0)%nat by (simpl; lia). apply prev_read; simpl; try lia. left. simpl. lia.
    - assert (Hi' : (S i' < r)%nat) by lia.
      destruct (geom_succ i' Hi') as (S1 & S2 & S3 & S4 & S5 & S6).
      destruct (geom_row i' ltac:(lia)) as (P1 & P2 & P3 & P4 & P5 & P6).
      simpl wskip. split.
      + apply prev_read; simpl; try lia. left. simpl. lia.
      + replace (j + 1)%nat with (S j) by lia. apply prev_read; simpl; try lia.
        destruct (Nat.le_gt_cases (S j) (jE i')) as [Hle|Hgt]; [left; simpl; lia|right].
        apply M_out; [lia|lia]. }
  destruct Rdiag as [Rd Ru].
  unfold step_j. rewrite (cell_in i j Hi Hj) in *.
  pose proof (M_S_S i j) as HM. rewrite (cell_in i j Hi Hj) in HM.
  destruct (cleb (Fin (pdist (u_inner u) (nth i s1 []) (nth j s2 []))) (adj_max_step u)) eqn:Ems; cbn [negb].
  - (* the cell is computed *)
    split; [rewrite upd_nat_length; exact Hlen|].
    intros q Hq. destruct (Nat.eq_dec q (j + 1 - sk i)) as [->|Hne].
    + unfold rget. rewrite nth_upd_nat_eq by lia. fold (rget prev (j - wskip i)) (rget prev (j + 1 - wskip i)) (rget cur (j - sk i)).
      rewrite Rd, Ru, Rleft. replace (j + 1 - sk i + sk i)%nat with (S j) by lia.
      assert (E : ((jS i <=? S j)%nat && (S j <=? S j)%nat) = true) by (apply andb_true_iff; split; apply Nat.leb_le; lia).
      rewrite E. symmetry. exact HM.
    + unfold rget. rewrite nth_upd_nat_neq by lia. fold (rget cur q). rewrite Hcur by exact Hq.
      destruct (Nat.leb_spec (jS i) (q + sk i)); destruct (Nat.leb_spec (q + sk i) j);
        destruct (Nat.leb_spec (q + sk i) (S j)); simpl; try reflexivity; try lia.
  - (* d > max_step: continue; the cell keeps its initial inf, and so does the matrix *)
    split; [exact Hlen|].
    intros q Hq. rewrite Hcur by exact Hq.
    destruct (Nat.eq_dec (q + sk i) (S j)) as [Eq|Hne].
    + rewrite Eq.
      assert (E1 : ((jS i <=? S j)%nat && (S j <=? j)%nat) = false)
        by (apply andb_false_iff; right; apply Nat.leb_gt; lia).
      assert (E2 : ((jS i <=? S j)%nat && (S j <=? S j)%nat) = true)
        by (apply andb_true_iff; split; apply Nat.leb_le; lia).
      rewrite E1, E2. rewrite HM. reflexivity.
    + destruct (Nat.leb_spec (jS i) (q + sk i)); destruct (Nat.leb_spec (q + sk i) j);
        destruct (Nat.leb_spec (q + sk i) (S j)); simpl; try reflexivity; try lia.
Qed.

Lemma fold_ok : forall n j cur, (jS i <= j)%nat -> (j + n <= jE i)%nat -> CurOK j cur ->
  CurOK (j + n) (fold_left (step_j u s1 s2 i (wskip i) (sk i) prev) (seq j n) cur).
Proof.
  induction n as [|n IH]; intros j cur H1 H2 Hc0; simpl; [rewrite Nat.add_0_r; exact Hc0|].
  replace (j + S n)%nat with (S j + n)%nat by lia. apply IH; [lia|lia|]. apply step_ok; [lia|exact Hc0].
Qed.

Lemma row_step_ok : RowOK (S i) (row_step u s1 s2 i (wskip i) prev).
Proof.
  destruct (geom_row i Hi) as (G1 & G2 & G3 & G4 & G5 & G6).
  unfold row_step. fold LL sk jS jE.
  pose proof (fold_ok (jE i - jS i) (jS i) _ (le_n _) ltac:(lia) cur_init_ok) as [Hl Hq].
  replace (jS i + (jE i - jS i))%nat with (jE i) in Hq by lia.
  split; [exact Hl|]. intros q Hq'. simpl wlo. simpl whi. simpl wskip. apply Hq. exact Hq'.
Qed.
End OneRow.

(* ------------------------------------------------------------ all rows *)
(* psi_shortest after the first n rows, in terms of the matrix *)
Fixpoint ps_spec (n : nat) : cost :=
  match n with
  | O => Inf
  | S i => if negb (psi_1e u =? 0)%nat && (jE i =? c)%nat && (r - 1 - i <=? psi_1e u)%nat
           then cmin (ps_spec i) (M (S i) c) else ps_spec i
  end.

Lemma rows_ok : forall n, (n <= r)%nat ->
  let '(cur, skv, ps) := rows u s1 s2 n in RowOK n cur /\ skv = wskip n /\ ps = ps_spec n.
Proof.
  induction n as [|i IH]; intros Hn.
  - simpl. split; [apply row_init_ok|]. split; reflexivity.
  - specialize (IH ltac:(lia)). cbn [rows]. destruct (rows u s1 s2 i) as [[prev skp] ps].
    destruct IH as (Hp & Hs & Hps). subst skp ps.
    assert (Hi : (i < r)%nat) by lia.
    pose proof (row_step_ok i Hi prev Hp) as Hrow.
    split; [exact Hrow|]. split; [reflexivity|].
    cbn [ps_spec]. fold jE c.
    destruct (negb (psi_1e u =? 0)%nat && (jE i =? c)%nat && (r - 1 - i <=? psi_1e u)%nat) eqn:B; [|reflexivity].
    f_equal. destruct Hrow as [_ Hq]. destruct (geom_row i Hi) as (G1 & G2 & G3 & G4 & G5 & G6).
    apply andb_true_iff in B. destruct B as [B _]. apply andb_true_iff in B. destruct B as [_ B]. apply Nat.eqb_eq in B.
    fold sk. rewrite Hq by (fold jE; lia). simpl wlo. simpl whi. simpl wskip.
    replace (jE i - sk i + sk i)%nat with (jE i) by lia.
    assert (E : ((jS i <=? jE i)%nat && (jE i <=? jE i)%nat) = true) by (apply andb_true_iff; split; apply Nat.leb_le; lia).
    rewrite E, B. reflexivity.
Qed.

(* ------------------------------------------------------------ the end value *)
Hypothesis Hnd : ~ ((c <= psi_2e u)%nat /\ (r <= psi_1b u)%nat).     (* non-degenerate psi *)

Lemma cmin_list_map_ext_ge {A} (f g : A -> cost) l :
  (forall x, In x l -> f x = g x) -> cmin_list (map f l) = cmin_list (map g l).
Proof. intros H. f_equal. apply map_ext_in. exact H. Qed.

(* minimum over the last column candidates *)
Lemma ps_spec_is_column_min : ps_spec r =
  (if (psi_1e u =? 0)%nat then Inf
   else cmin_list (map (fun k => M (r - k) c) (seq 0 (S (Nat.min (psi_1e u) (r - 1)))))).
Proof.
  destruct (psi_1e u =? 0)%nat eqn:E0.
  - assert (G : forall n, ps_spec n = Inf) by (induction n as [|n IH]; simpl; [reflexivity|]; rewrite E0; simpl; exact IH).
    apply G.
  - apply Nat.eqb_neq in E0.
    (* both sides are the minimum of M (S i) c over the rows i >= r-1-psi_1e; rows whose band does not reach the
       last column contribute Inf *)
    assert (G : forall n, (n <= r)%nat ->
      ps_spec n = cmin_list (map (fun i => if (r - 1 - i <=? psi_1e u)%nat then M (S i) c else Inf) (rev (seq 0 n)))).
    { induction n as [|n IH]; intros Hn; [reflexivity|].
      cbn [ps_spec]. rewrite seq_S, rev_app_distr. cbn [rev app map cmin_list plus].
      rewrite IH by lia.
      assert (Hne : negb (psi_1e u =? 0)%nat = true) by (apply negb_true_iff; apply Nat.eqb_neq; exact E0).
      rewrite Hne. cbn [andb].
      destruct (Nat.leb_spec (r - 1 - n) (psi_1e u)) as [Hle|Hgt].
      - destruct (Nat.eqb_spec (jE n) c) as [Ec|Enc]; cbn [andb].
        + apply cmin_comm.
        + rewrite (M_out n (c - 1)); [rewrite cmin_inf_l; reflexivity|lia|].
          destruct (geom_row n ltac:(lia)) as (G1 & G2 & _). lia.
          Unshelve. all: try exact 0%nat.
      - rewrite andb_false_r. rewrite cmin_inf_l. reflexivity. }
    rewrite (G r (le_n _)).
    (* reindex i = r - 1 - k *)
    apply cle_antisym.
    + apply cmin_list_mono_incl_map. intros k Hk. apply in_seq in Hk.
      exists (r - 1 - k)%nat. split.
      * apply in_rev. rewrite rev_involutive. apply in_seq. lia.
      * assert (E : (r - 1 - (r - 1 - k) <=? psi_1e u)%nat = true) by (apply Nat.leb_le; lia).
        rewrite E. replace (S (r - 1 - k)) with (r - k)%nat by lia. apply cle_refl.
    + apply cmin_list_mono_incl_map_inf. intros i Hi.
      apply in_rev in Hi. rewrite rev_involutive in Hi. apply in_seq in Hi.
      destruct (Nat.leb_spec (r - 1 - i) (psi_1e u)) as [Hle|Hgt]; [right|left; reflexivity].
      exists (r - 1 - i)%nat. split; [apply in_seq; lia|].
      replace (r - (r - 1 - i))%nat with (S i) by lia. apply cle_refl.
Abort.
End Refine.
