(* Distance-to-similarity and squashing transforms (similarity.py): monotone,
   bounded, maximal at zero distance -- over the reals, for the formulas
   regenerated from the source (DVGen.Gen_sim). *)
From Coq Require Import Reals Lra Lia.
From DVGen Require Import Gen_sim.
Open Scope R_scope.

Lemma exp_le x y : x <= y -> exp x <= exp y.
Proof. intros [H|H]; [left; apply exp_increasing; exact H|right; f_equal; exact H]. Qed.

Lemma exp_le_1 x : x <= 0 -> exp x <= 1.
Proof. intros H. rewrite <- exp_0. apply exp_le. exact H. Qed.

Lemma div_le_compat_pos a b r : 0 < r -> a <= b -> a / r <= b / r.
Proof. intros Hr H. unfold Rdiv. apply Rmult_le_compat_r; [left; apply Rinv_0_lt_compat; exact Hr|exact H]. Qed.

(* ------------------------------------------------------------ exponential *)
Lemma sim_exponential_antitone r D1 D2 : 0 < r -> D1 <= D2 -> sim_exponential D2 r <= sim_exponential D1 r.
Proof. intros Hr H. unfold sim_exponential. apply exp_le. apply div_le_compat_pos; [exact Hr|lra]. Qed.

Lemma sim_exponential_zero r : 0 < r -> sim_exponential 0 r = 1.
Proof. intros Hr. unfold sim_exponential. replace (- 0 / r) with 0 by (field; lra). apply exp_0. Qed.

Lemma sim_exponential_range r D : 0 < r -> 0 <= D -> 0 < sim_exponential D r <= 1.
Proof.
  intros Hr HD. unfold sim_exponential. split; [apply exp_pos|]. apply exp_le_1.
  assert (0 <= D / r) by (apply Rmult_le_pos; [exact HD|left; apply Rinv_0_lt_compat; exact Hr]).
  replace (- D / r) with (- (D / r)) by (field; lra). lra.
Qed.

(* ------------------------------------------------------------ gaussian *)
Lemma sq_le a b : 0 <= a -> a <= b -> a * a <= b * b.
Proof. intros. apply Rmult_le_compat; lra. Qed.

Lemma sim_gaussian_antitone r D1 D2 : r <> 0 -> 0 <= D1 -> D1 <= D2 -> sim_gaussian D2 r <= sim_gaussian D1 r.
Proof.
  intros Hr H0 H. unfold sim_gaussian. apply exp_le.
  assert (Hrr : 0 < r * r) by (destruct (Rtotal_order r 0) as [?|[?|?]]; [|lra|]; nra).
  apply div_le_compat_pos; [exact Hrr|]. pose proof (sq_le D1 D2 H0 H). lra.
Qed.

Lemma sim_gaussian_zero r : r <> 0 -> sim_gaussian 0 r = 1.
Proof. intros Hr. unfold sim_gaussian. replace (- (0 * 0) / (r * r)) with 0 by (field; exact Hr). apply exp_0. Qed.

Lemma sim_gaussian_range r D : r <> 0 -> 0 < sim_gaussian D r <= 1.
Proof.
  intros Hr. unfold sim_gaussian. split; [apply exp_pos|]. apply exp_le_1.
  assert (Hrr : 0 < r * r) by (destruct (Rtotal_order r 0) as [?|[?|?]]; [|lra|]; nra).
  assert (0 <= (D * D) / (r * r)).
  { apply Rmult_le_pos; [nra|left; apply Rinv_0_lt_compat; exact Hrr]. }
  replace (- (D * D) / (r * r)) with (- ((D * D) / (r * r))) by (field; exact Hr). lra.
Qed.

(* ------------------------------------------------------------ reciprocal *)
Lemma sim_reciprocal_antitone r a D1 D2 : 0 < r -> 0 <= a -> 0 <= D1 -> D1 <= D2 ->
  sim_reciprocal D2 r a <= sim_reciprocal D1 r a.
Proof.
  intros Hr Ha H0 H. unfold sim_reciprocal.
  assert (0 < r + D1 * a) by nra. assert (r + D1 * a <= r + D2 * a) by nra.
  unfold Rdiv. rewrite !Rmult_1_l. apply Rinv_le_contravar; assumption.
Qed.

Lemma sim_reciprocal_zero r a : sim_reciprocal 0 r a = 1 / r.
Proof. unfold sim_reciprocal. rewrite Rmult_0_l, Rplus_0_r. reflexivity. Qed.

Lemma sim_reciprocal_range r a D : 1 <= r -> 0 <= a -> 0 <= D -> 0 < sim_reciprocal D r a <= 1.
Proof.
  intros Hr Ha HD. unfold sim_reciprocal. assert (H : 1 <= r + D * a) by nra.
  unfold Rdiv. rewrite Rmult_1_l. split; [apply Rinv_0_lt_compat; lra|].
  rewrite <- Rinv_1. apply Rinv_le_contravar; lra.
Qed.

(* ------------------------------------------------------------ reverse *)
Lemma sim_reverse_antitone r D1 D2 : 0 < r -> D1 <= D2 -> sim_reverse D2 r <= sim_reverse D1 r.
Proof. intros Hr H. unfold sim_reverse. apply div_le_compat_pos; [exact Hr|lra]. Qed.

Lemma sim_reverse_zero r : r <> 0 -> sim_reverse 0 r = 1.
Proof. intros Hr. unfold sim_reverse. field. exact Hr. Qed.

Lemma sim_reverse_range r D : 0 < r -> 0 <= D <= r -> 0 <= sim_reverse D r <= 1.
Proof.
  intros Hr HD. unfold sim_reverse. split.
  - apply Rmult_le_pos; [lra|left; apply Rinv_0_lt_compat; exact Hr].
  - replace 1 with (r / r) by (field; lra). apply div_le_compat_pos; [exact Hr|lra].
Qed.

(* the formulas the docstrings state (regenerated from the docstring lines "- Label: formula") are the formulas the
   code computes (regenerated from the assignments).  The docstring used to say "Reverse: r - D" while the code divides
   by r (former finding F13b, repaired in /repo): r - D is a different function. *)
Lemma documented_formulas_are_computed :
  (forall D r, doc_exponential D r = sim_exponential D r) /\
  (forall D r, doc_gaussian D r = sim_gaussian D r) /\
  (forall D r a, doc_reciprocal D r a = sim_reciprocal D r a) /\
  (forall D r, doc_reverse D r = sim_reverse D r) /\
  (forall X r x0, doc_squash_gaussian X r x0 = squash_gaussian X r x0) /\
  (forall X r x0, doc_squash_exponential X r x0 = squash_exponential X r x0).
Proof. repeat split; intros; reflexivity. Qed.

Lemma sim_reverse_is_not_r_minus_D : exists D r, sim_reverse D r <> r - D.
Proof. exists 0, 2. unfold sim_reverse. intros H. assert (E : (2 - 0) / 2 = 1) by (field). lra. Qed.

(* ------------------------------------------------------------ squashing *)
Lemma squash_logistic_monotone r x0 X1 X2 : 0 < r -> X1 <= X2 -> squash_logistic X1 r x0 <= squash_logistic X2 r x0.
Proof.
  intros Hr H. unfold squash_logistic. unfold Rdiv. rewrite !Rmult_1_l.
  apply Rinv_le_contravar.
  - pose proof (exp_pos (- (X2 - x0) * / r)). lra.
  - apply Rplus_le_compat_l. apply exp_le. apply div_le_compat_pos; [exact Hr|lra].
Qed.

Lemma squash_logistic_range r x0 X : 0 < squash_logistic X r x0 < 1.
Proof.
  unfold squash_logistic. pose proof (exp_pos (- (X - x0) / r)) as He.
  set (e := exp (- (X - x0) / r)) in *.
  assert (H1 : 0 < 1 + e) by lra.
  split.
  - apply Rdiv_lt_0_compat; lra.
  - apply Rmult_lt_reg_r with (r := 1 + e); [exact H1|].
    unfold Rdiv. rewrite Rmult_assoc, Rinv_l by lra. lra.
Qed.

Lemma squash_exponential_monotone r x0 X1 X2 : 0 < r -> X1 <= X2 -> squash_exponential X1 r x0 <= squash_exponential X2 r x0.
Proof.
  intros Hr H. unfold squash_exponential.
  assert (exp (- (X2 - x0) / r) <= exp (- (X1 - x0) / r)) by (apply exp_le; apply div_le_compat_pos; [exact Hr|lra]).
  lra.
Qed.

Lemma squash_exponential_range r X : 0 < r -> 0 <= X -> 0 <= squash_exponential X r 0 < 1.
Proof.
  intros Hr HX. unfold squash_exponential. rewrite Rminus_0_r.
  pose proof (exp_pos (- X / r)).
  assert (exp (- X / r) <= 1).
  { apply exp_le_1. assert (0 <= X / r) by (apply Rmult_le_pos; [exact HX|left; apply Rinv_0_lt_compat; exact Hr]).
    replace (- X / r) with (- (X / r)) by (field; lra). lra. }
  lra.
Qed.

Lemma squash_gaussian_monotone r X1 X2 : r <> 0 -> 0 <= X1 -> X1 <= X2 -> squash_gaussian X1 r 0 <= squash_gaussian X2 r 0.
Proof.
  intros Hr H0 H. unfold squash_gaussian. rewrite !Rminus_0_r.
  pose proof (sim_gaussian_antitone r X1 X2 Hr H0 H) as G. unfold sim_gaussian in G. lra.
Qed.

Lemma squash_gaussian_range r X : r <> 0 -> 0 <= squash_gaussian X r 0 < 1.
Proof.
  intros Hr. unfold squash_gaussian. rewrite !Rminus_0_r.
  pose proof (sim_gaussian_range r X Hr) as G. unfold sim_gaussian in G. lra.
Qed.
