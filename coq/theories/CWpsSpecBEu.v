(* [CWpsSpecB.v for the Euclidean twin dtw_warping_paths_ndim_euclidean; same proof over the twin's regenerated loops]
   CWpsSpec.v UNDER A BOUND: the regenerated kernel dtw_warping_paths_ndim (Gen_cwpsk.v) run with p.max_dist = B (any
   bound; infinite = no bound) leaves, in every slot of every row of the buffer, the cell of the specification matrix
   the layout assigns to it OR a value above the bound where that cell is above the bound too, with every access in
   range.  Row regions A-D one after the other as in CWpsSpec.v; per row CWpsPrune.row_step_B, the pruning columns sc
   and ec being threaded through the regions with what they stand for (PInv). *)
From Coq Require Import ZArith Bool Lia List.
From DV Require Import Prelude Cost Grid Dtw DtwSpec DtwProps Prune PyDistPrune CWps CFill CExpand CFillSim CLang CDistCanon CDistProofs
  CWpsCanon CWpsCanonEu CWpsKernel CWpsTie CWpsTieEu CWpsSpec CWpsSpecEu CWpsPrune.
From DVGen Require Import Gen_cwps Gen_cfill Gen_cwpsk.
Import ListNotations.
Open Scope Z_scope.

Section SpecB.
Variable u : usettings.
Variables ps1 ps2 : list point.
Variable B : cost.
Hypothesis Hr : (1 <= length ps1)%nat.
Hypothesis Hc : (1 <= length ps2)%nat.
Hypothesis Hpen : pen_ok u.
Hypothesis Hpsi : (psi_1b u < length ps1)%nat \/ (psi_2e u < length ps2)%nat.
Variable window0 : Z.
Hypothesis Hw : 0 <= window0.
Local Notation l1 := (Z.of_nat (length ps1)).
Local Notation l2 := (Z.of_nat (length ps2)).
Local Notation d := (cell u ps1 ps2).
Local Notation pen := (adj_penalty u).
Local Notation p1b := (psi_1b u).
Local Notation p2b := (psi_2b u).
Hypothesis Hd : forall ri ci : nat, Z.of_nat ri < l1 ->
  ~ (blo l1 l2 window0 (Z.of_nat ri) <= Z.of_nat ci < bhi l1 l2 window0 (Z.of_nat ri)) -> d ri ci = Inf.
Variables (ndim : Z) (s1 s2 : list Z) (ms : cost).
Hypothesis Hcell : forall ri ci : nat, Z.of_nat ri < l1 ->
  blo l1 l2 window0 (Z.of_nat ri) <= Z.of_nat ci < bhi l1 l2 window0 (Z.of_nat ri) ->
  wdok l1 l2 ndim s1 s2 (Z.of_nat ri * ndim) (Z.of_nat ci) = true /\
  (if cltb ms (wdfun_eu l1 l2 ndim s1 s2 (Z.of_nat ri * ndim) (Z.of_nat ci)) then Inf
   else wdfun_eu l1 l2 ndim s1 s2 (Z.of_nat ri * ndim) (Z.of_nat ci)) = d ri ci.
Hypothesis Hp1b : Z.of_nat p1b <= l1.
Hypothesis Hp2b : Z.of_nat p2b <= l2.

Let H1 : 1 <= l1. Proof. lia. Qed.
Let H2 : 1 <= l2. Proof. lia. Qed.

Local Notation ldiff := (c_parts_ldiff l1 l2).
Local Notation ldiffr := (c_parts_ldiffr l1 l2 ldiff).
Local Notation ldiffc := (c_parts_ldiffc l1 l2 ldiff).
Local Notation window := (c_parts_window l1 l2 window0).
Local Notation ol := (c_parts_overlap_left l1 ldiffr window).
Local Notation orr := (c_parts_overlap_right l1 ldiffr window).
Local Notation ri1 := (c_parts_ri1 l1 ol orr).
Local Notation ri2 := (c_parts_ri2 l1 ol).
Local Notation ri3 := (c_parts_ri3 l1 ol orr).
Local Notation W := (cw_width l1 l2 window0).
Local Notation shiftz := (cw_shift l1 l2 window0).
Local Notation lo := (blo l1 l2 window0).
Local Notation hi := (bhi l1 l2 window0).
Local Notation wl := ((l1 + 1) * W).
Local Notation GI := (GQ u ps1 ps2 B window0).
Local Notation PI := (PInv u ps1 ps2 B window0).
Local Notation zp1b := (Z.of_nat p1b).
Local Notation regions_ordered := (CWpsSpec.regions_ordered l1 l2 window0 H1 H2 Hw).
Local Notation regA_facts := (CWpsSpec.regA_facts l1 l2 window0 H1 H2 Hw).
Local Notation regB_facts := (CWpsSpec.regB_facts l1 l2 window0 H1 H2 Hw).
Local Notation regC_facts := (CWpsSpec.regC_facts l1 l2 window0 H1 H2 Hw).
Local Notation regD_facts := (CWpsSpec.regD_facts l1 l2 window0 H1 H2 Hw).
Local Notation rinit0 := (CWpsSpec.rinit0 l1 l2 window0 p1b).
Local Notation inb_base := (CWpsSpec.inb_base l1 l2 window0 H1 H2 Hw).
Local Notation row_stepB := (row_step_B u ps1 ps2 B Hr Hc Hpen Hpsi window0 Hw Hd).

(* the pruning columns as the kernels hold them *)
Definition PSt (k : nat) (sc ec : Z) : Prop := exists scn ecn : nat, sc = Z.of_nat scn /\ ec = Z.of_nat ecn /\ PI k scn ecn.

(* ------------------------------------------------------------------ region A *)
Definition RInvA (k : nat) (st : Z * Z * bool * Z * Z * Z * list cost) : Prop :=
  let '(ec, max_ci, ok, ri_width, ri_widthp, sc, wps) := st in
  max_ci = window + ldiffc + Z.of_nat k /\ ok = true /\ ri_width = (Z.of_nat k + 1) * W /\ ri_widthp = Z.of_nat k * W /\ PSt k sc ec /\
  GI k wps.

Lemma stepA k st : Z.of_nat k < ri1 -> RInvA k st ->
  RInvA (S k) (c_dtw_warping_paths_ndim_euclidean_loop5 zp1b l1 l2 0 ndim B ms (Fin pen) W s1 s2 wl st (Z.of_nat k)).
Proof.
  intros Hk. destruct st as [[[[[[ec max_ci] ok] ri_width] ri_widthp] sc] wps].
  intros (-> & -> & -> & -> & (scn & ecn & -> & -> & HP) & HG).
  destruct (regA_facts k Hk) as (Elo & Ehi & Esh & Eoff & Hkl).
  rewrite tie_eu_rowA.
  assert (Efc : Z.of_nat (first_col l1 l2 window0 k) = 0) by (unfold first_col; rewrite Elo; reflexivity).
  assert (Eslot : slotz l1 l2 window0 k (first_col l1 l2 window0 k) = 1) by (unfold slotz; rewrite Efc, Esh; reflexivity).
  destruct (row_stepB k Hkl
              (wdok l1 l2 ndim s1 s2 (Z.of_nat k * ndim)) (wdfun_eu l1 l2 ndim s1 s2 (Z.of_nat k * ndim)) fdA fuA ms
              (fun ci Hci => Hcell k ci Hkl Hci)
              ltac:(intros x; unfold fdA; rewrite Eoff; lia) ltac:(intros x; unfold fuA; rewrite Eoff; lia)
              wps wps zp1b scn ecn
              (fun ec ok sc wps => (ec, window + ldiffc + Z.of_nat k + 1, ok, (Z.of_nat k + 1) * W + W, (Z.of_nat k + 1) * W, sc, wps))
              HG HP eq_refl eq_refl (fun idx _ => eq_refl))
    as (scn' & ecn' & wps' & E & HG' & HP').
  { intros s Hs. rewrite Eslot in Hs. assert (s = 0) by lia. subst s.
    destruct HG as (_ & _ & Hc0). rewrite Z.add_0_r. replace (Z.of_nat k + 1) with (Z.of_nat (S k)) by lia.
    rewrite Hc0 by lia. symmetry. apply rinit0. pose proof regions_ordered. lia. }
  rewrite Elo, Ehi, Eslot in E. rewrite E. unfold RInvA. split; [lia|]. split; [reflexivity|]. split; [lia|]. split; [lia|].
  split; [exists scn', ecn'; repeat split; try reflexivity; apply HP'|exact HG'].
Qed.

(* ------------------------------------------------------------------ region B *)
Definition RInvB (k : nat) (st : Z * bool * Z * Z * Z * list cost) : Prop :=
  let '(ec, ok, ri_width, ri_widthp, sc, wps) := st in
  ok = true /\ ri_width = (Z.of_nat k + 1) * W /\ ri_widthp = Z.of_nat k * W /\ PSt k sc ec /\ GI k wps.

Lemma stepB k st : ri1 <= Z.of_nat k < ri2 -> RInvB k st ->
  RInvB (S k) (c_dtw_warping_paths_ndim_euclidean_loop10 zp1b l1 l2 l2 0 ndim B ms (Fin pen) W s1 s2 wl st (Z.of_nat k)).
Proof.
  intros Hk. destruct st as [[[[[ec ok] ri_width] ri_widthp] sc] wps].
  intros (-> & -> & -> & (scn & ecn & -> & -> & HP) & HG).
  destruct (regB_facts k Hk) as (Elo & Ehi & Esh & Eoff & Hkl).
  rewrite tie_eu_rowB.
  assert (Efc : Z.of_nat (first_col l1 l2 window0 k) = 0) by (unfold first_col; rewrite Elo; reflexivity).
  assert (Eslot : slotz l1 l2 window0 k (first_col l1 l2 window0 k) = 1) by (unfold slotz; rewrite Efc, Esh; reflexivity).
  destruct (row_stepB k Hkl
              (wdok l1 l2 ndim s1 s2 (Z.of_nat k * ndim)) (wdfun_eu l1 l2 ndim s1 s2 (Z.of_nat k * ndim)) fdA fuA ms
              (fun ci Hci => Hcell k ci Hkl Hci)
              ltac:(intros x; unfold fdA; rewrite Eoff; lia) ltac:(intros x; unfold fuA; rewrite Eoff; lia)
              wps wps zp1b scn ecn
              (fun ec ok sc wps => (ec, ok, (Z.of_nat k + 1) * W + W, (Z.of_nat k + 1) * W, sc, wps))
              HG HP eq_refl eq_refl (fun idx _ => eq_refl))
    as (scn' & ecn' & wps' & E & HG' & HP').
  { intros s Hs. rewrite Eslot in Hs. assert (s = 0) by lia. subst s.
    destruct HG as (_ & _ & Hc0). rewrite Z.add_0_r. replace (Z.of_nat k + 1) with (Z.of_nat (S k)) by lia.
    rewrite Hc0 by lia. symmetry. apply rinit0. lia. }
  rewrite Elo, Ehi, Eslot in E. rewrite E. unfold RInvB. split; [reflexivity|]. split; [lia|]. split; [lia|].
  split; [exists scn', ecn'; repeat split; try reflexivity; apply HP'|exact HG'].
Qed.

(* ------------------------------------------------------------------ region C *)
Local Notation maxC0 := (1 + 2 * window - 1 + ldiff).
Definition RInvC (k : nat) (st : Z * Z * Z * bool * Z * Z * Z * list cost) : Prop :=
  let '(ec, max_ci, min_ci, ok, ri_width, ri_widthp, sc, wps) := st in
  max_ci = maxC0 + (Z.of_nat k - ri2) /\ min_ci = 1 + (Z.of_nat k - ri2) /\
  ok = true /\ ri_width = (Z.of_nat k + 1) * W /\ ri_widthp = Z.of_nat k * W /\ PSt k sc ec /\ GI k wps.

Lemma stepC k st : ri2 <= Z.of_nat k < ri3 -> RInvC k st ->
  RInvC (S k) (c_dtw_warping_paths_ndim_euclidean_loop15 zp1b l1 l2 ndim B ms (Fin pen) W s1 s2 wl st (Z.of_nat k)).
Proof.
  intros Hk. destruct st as [[[[[[[ec max_ci] min_ci] ok] ri_width] ri_widthp] sc] wps].
  intros (-> & -> & -> & -> & -> & (scn & ecn & -> & -> & HP) & HG).
  destruct (regC_facts k Hk) as (Elo & Ehi & Esh & Eoff & Hkl).
  pose proof (W_pos l1 l2 window0 H1 H2 Hw) as HWp.
  rewrite tie_eu_rowC. rewrite (inb_base k Hkl). cbn [andb].
  pose proof (lo_nonneg l1 l2 window0 H1 H2 Hw (Z.of_nat k)) as Hl0.
  assert (Efc : Z.of_nat (first_col l1 l2 window0 k) = lo (Z.of_nat k)) by (unfold first_col; lia).
  assert (Eslot : slotz l1 l2 window0 k (first_col l1 l2 window0 k) = 1) by (unfold slotz; rewrite Efc, Esh; lia).
  destruct HG as (Hlen & Hrows & Hc0).
  destruct (row_stepB k Hkl
              (wdok l1 l2 ndim s1 s2 (Z.of_nat k * ndim)) (wdfun_eu l1 l2 ndim s1 s2 (Z.of_nat k * ndim)) fdC fuC ms
              (fun ci Hci => Hcell k ci Hkl Hci)
              ltac:(intros x; unfold fdC; rewrite Eoff; lia) ltac:(intros x; unfold fuC; rewrite Eoff; lia)
              wps (aset wps ((Z.of_nat k + 1) * W) Inf) zp1b scn ecn
              (fun ec ok sc wps => (ec, maxC0 + (Z.of_nat k - ri2) + 1, 1 + (Z.of_nat k - ri2) + 1, ok, (Z.of_nat k + 1) * W + W, (Z.of_nat k + 1) * W, sc, wps))
              (conj Hlen (conj Hrows Hc0)) HP eq_refl (aset_length _ _ _))
    as (scn' & ecn' & wps' & E & HG' & HP').
  { intros idx Hidx. apply aget_aset_other. lia. }
  { intros s Hs. rewrite Eslot in Hs. assert (s = 0) by lia. subst s. rewrite Z.add_0_r.
    rewrite aget_aset_same by nia. unfold row_init. cbn [Z.eqb andb]. unfold cw_ri2.
    destruct (Z.ltb_spec (Z.of_nat k) ri2); [lia|reflexivity]. }
  rewrite <- Elo in E at 1. rewrite Elo, Ehi, Eslot in E. rewrite E. unfold RInvC.
  split; [lia|]. split; [lia|]. split; [reflexivity|]. split; [lia|]. split; [lia|].
  split; [exists scn', ecn'; repeat split; try reflexivity; apply HP'|exact HG'].
Qed.

(* ------------------------------------------------------------------ region D *)
Local Notation minD0 := (if ri2 =? ri3 then Z.max 0 (ri3 + 1 - window - ldiffr) else 1 + ri3 - ri2).
Local Notation wpsiD0 := (if ri2 =? ri3 then Z.max 0 (ri3 + 1 - window - ldiffr) + 1 else 2).
Definition RInvD (k : nat) (st : Z * Z * bool * Z * Z * Z * list cost * Z) : Prop :=
  let '(ec, min_ci, ok, ri_width, ri_widthp, sc, wps, wpsi_start) := st in
  min_ci = minD0 + (Z.of_nat k - ri3) /\ wpsi_start = wpsiD0 + (Z.of_nat k - ri3) /\
  ok = true /\ ri_width = (Z.of_nat k + 1) * W /\ ri_widthp = Z.of_nat k * W /\ PSt k sc ec /\ GI k wps.

Lemma stepD k st : ri3 <= Z.of_nat k < l1 -> RInvD k st ->
  RInvD (S k) (c_dtw_warping_paths_ndim_euclidean_loop20 zp1b l1 l2 ndim B ms (Fin pen) W s1 s2 wl st (Z.of_nat k)).
Proof.
  intros Hk. destruct st as [[[[[[[ec min_ci] ok] ri_width] ri_widthp] sc] wps] wpsi_start].
  intros (-> & -> & -> & -> & -> & (scn & ecn & -> & -> & HP) & HG).
  destruct (regD_facts k Hk) as (Elo & Ehi & Esl & Eoff & Hws). assert (Hkl : Z.of_nat k < l1) by lia.
  pose proof (W_pos l1 l2 window0 H1 H2 Hw) as HWp. pose proof regions_ordered as (R0 & R1 & R2 & R3).
  rewrite tie_eu_rowD.
  pose proof (lo_nonneg l1 l2 window0 H1 H2 Hw (Z.of_nat k)) as Hl0.
  assert (Efc : Z.of_nat (first_col l1 l2 window0 k) = lo (Z.of_nat k)) by (unfold first_col; lia).
  assert (Eslot : slotz l1 l2 window0 k (first_col l1 l2 window0 k) = wpsiD0 + (Z.of_nat k - ri3)) by (unfold slotz; rewrite Efc; exact Esl).
  destruct HG as (Hlen & Hrows & Hc0).
  set (ws := wpsiD0 + (Z.of_nat k - ri3)) in *.
  replace ((Z.of_nat k + 1) * W + ws) with ((Z.of_nat k + 1) * W + Z.of_nat (Z.to_nat ws)) by lia.
  destruct (wfill_spec wl wps ((Z.of_nat k + 1) * W) (Z.to_nat ws) ltac:(nia) ltac:(nia) ltac:(symmetry; exact Hlen))
    as (wpsh & Eh & Hlh & Hinh & Houth).
  rewrite Eh.
  destruct (row_stepB k Hkl
              (wdok l1 l2 ndim s1 s2 (Z.of_nat k * ndim)) (wdfun_eu l1 l2 ndim s1 s2 (Z.of_nat k * ndim)) fdA fuA ms
              (fun ci Hci => Hcell k ci Hkl Hci)
              ltac:(intros x; unfold fdA; rewrite Eoff; lia) ltac:(intros x; unfold fuA; rewrite Eoff; lia)
              wps wpsh zp1b scn ecn
              (fun ec ok sc wps => (ec, minD0 + (Z.of_nat k - ri3) + 1, ok, (Z.of_nat k + 1) * W + W, (Z.of_nat k + 1) * W, sc, wps, ws + 1))
              (conj Hlen (conj Hrows Hc0)) HP eq_refl Hlh)
    as (scn' & ecn' & wps' & E & HG' & HP').
  { intros idx Hidx. apply Houth. lia. }
  { intros s Hs. rewrite Eslot in Hs. rewrite Hinh by lia. unfold row_init, cw_ri2.
    destruct (Z.eqb_spec s 0); [|reflexivity]. cbn [andb]. destruct (Z.ltb_spec (Z.of_nat k) ri2); [lia|reflexivity]. }
  rewrite Elo, Ehi, Eslot in E. rewrite E. unfold RInvD, ws.
  split; [lia|]. split; [lia|]. split; [reflexivity|]. split; [lia|]. split; [lia|].
  split; [exists scn', ecn'; repeat split; try reflexivity; apply HP'|exact HG'].
Qed.

(* exact rows are rows up to the bound *)
Lemma GInv_GQ k wps : GInv l1 l2 window0 d pen p1b p2b k wps -> GI k wps.
Proof.
  intros (Hl & Hrows & Hc0). split; [exact Hl|]. split; [|exact Hc0].
  intros j Hj s Hs col Hcl Hb. rewrite (Hrows j Hj s Hs Hcl Hb). apply Q_refl.
Qed.

Lemma PI_init : PI 0%nat 0%nat p2b.
Proof.
  split; [intros; lia|]. split.
  - intros col Hcol. destruct col as [|col]; [lia|]. left. unfold Mfun. rewrite Mf_0. unfold b0.
    destruct (Nat.leb_spec (S col) p2b); [lia|reflexivity].
  - pose proof (lo_nonneg l1 l2 window0 H1 H2 Hw (Z.of_nat 0)). destruct (band_nonempty l1 l2 window0 (Z.of_nat 0) H1 H2 Hw ltac:(cbn; lia)). cbn in *. lia.
Qed.

Local Notation l1n := (Z.to_nat l1).

(* the Euclidean kernel up to the end of the row regions, run with the bound B *)
Theorem c_wps_eu_kernel_runs_B shiftf cub1 cub2 wps0 return_dtw keep psi_neg zp1e zp2e :
  Z.of_nat (length wps0) = wl ->
  exists wps',
    c_dtw_warping_paths_ndim_euclidean shiftf cub1 cub2 wps0 s1 l1 s2 l2 return_dtw keep psi_neg ndim wl
      ldiff ldiffr ldiffc window W ri1 ri2 ri3 ms B (Fin pen) false zp1b zp1e (Z.of_nat p2b) zp2e false
    = k_wtail_eu shiftf return_dtw psi_neg l1 l2 W wl B zp1e zp2e true wps' /\
    GI l1n wps'.
Proof.
  intros Hl0. pose proof regions_ordered as (R0 & R1 & R2 & R3). pose proof (Nat2Z.is_nonneg p1b) as Hp0.
  unfold c_dtw_warping_paths_ndim_euclidean. cbv zeta. cbn [orb andb negb].
  destruct (CWpsSpecEu.init_spec l1 l2 window0 H1 H2 Hw d pen p1b p2b Hp1b Hp2b wps0 Hl0) as (wI & EI & GI0).
  apply GInv_GQ in GI0.
  destruct (fold_left (c_dtw_warping_paths_ndim_euclidean_loop1 wl) (zrange 0 (Z.of_nat p2b + 1)) (true, wps0)) as [o1 w1].
  destruct (fold_left (c_dtw_warping_paths_ndim_euclidean_loop2 wl) (zrange (Z.of_nat p2b + 1) W) (o1, w1)) as [o2 w2].
  cbv zeta in EI.
  destruct (fold_left (c_dtw_warping_paths_ndim_euclidean_loop3 W wl) (zrange 0 zp1b) (o2, w2, W)) as [[o3 w3] p3].
  rewrite EI.
  (* region A *)
  assert (HA : RInvA (Z.to_nat ri1) (fold_left (c_dtw_warping_paths_ndim_euclidean_loop5 zp1b l1 l2 0 ndim B ms (Fin pen) W s1 s2 wl) (zrange 0 ri1)
                                       (Z.of_nat p2b, window + ldiffc, true, W, 0, 0, wI))).
  { apply (CWpsSpec.region_fold 0%nat 0%nat RInvA); [lia| |].
    - unfold RInvA. cbn [Z.to_nat Z.of_nat]. split; [lia|]. split; [reflexivity|]. split; [lia|]. split; [lia|].
      split; [exists 0%nat, p2b; split; [reflexivity|]; split; [reflexivity|exact PI_init]|exact GI0].
    - intros k s Hk Hs. apply stepA; [lia|exact Hs]. }
  destruct (fold_left (c_dtw_warping_paths_ndim_euclidean_loop5 zp1b l1 l2 0 ndim B ms (Fin pen) W s1 s2 wl) (zrange 0 ri1)
              (Z.of_nat p2b, window + ldiffc, true, W, 0, 0, wI)) as [[[[[[ecA mxA] okA] rwA] rwpA] scA] wA].
  destruct HA as (_ & -> & -> & -> & HPA & GA).
  (* region B *)
  assert (HB : RInvB (Z.to_nat ri2) (fold_left (c_dtw_warping_paths_ndim_euclidean_loop10 zp1b l1 l2 l2 0 ndim B ms (Fin pen) W s1 s2 wl) (zrange ri1 ri2)
                                       (ecA, true, (Z.of_nat (Z.to_nat ri1) + 1) * W, Z.of_nat (Z.to_nat ri1) * W, scA, wA))).
  { apply (CWpsSpec.region_fold 0%nat 0%nat RInvB); [lia| |].
    - unfold RInvB. split; [reflexivity|]. split; [reflexivity|]. split; [reflexivity|]. split; [exact HPA|exact GA].
    - intros k s Hk Hs. apply stepB; [lia|exact Hs]. }
  destruct (fold_left (c_dtw_warping_paths_ndim_euclidean_loop10 zp1b l1 l2 l2 0 ndim B ms (Fin pen) W s1 s2 wl) (zrange ri1 ri2)
              (ecA, true, (Z.of_nat (Z.to_nat ri1) + 1) * W, Z.of_nat (Z.to_nat ri1) * W, scA, wA)) as [[[[[ecB okB] rwB] rwpB] scB] wB].
  destruct HB as (-> & -> & -> & HPB & GB).
  (* region C *)
  assert (HC : RInvC (Z.to_nat ri3) (fold_left (c_dtw_warping_paths_ndim_euclidean_loop15 zp1b l1 l2 ndim B ms (Fin pen) W s1 s2 wl) (zrange ri2 ri3)
                                       (ecB, 1 + 2 * window - 1 + ldiff, 1, true, (Z.of_nat (Z.to_nat ri2) + 1) * W, Z.of_nat (Z.to_nat ri2) * W, scB, wB))).
  { apply (CWpsSpec.region_fold 0%nat 0%nat RInvC); [lia| |].
    - unfold RInvC. split; [lia|]. split; [lia|]. split; [reflexivity|]. split; [reflexivity|]. split; [reflexivity|]. split; [exact HPB|exact GB].
    - intros k s Hk Hs. apply stepC; [lia|exact Hs]. }
  destruct (fold_left (c_dtw_warping_paths_ndim_euclidean_loop15 zp1b l1 l2 ndim B ms (Fin pen) W s1 s2 wl) (zrange ri2 ri3)
              (ecB, 1 + 2 * window - 1 + ldiff, 1, true, (Z.of_nat (Z.to_nat ri2) + 1) * W, Z.of_nat (Z.to_nat ri2) * W, scB, wB))
    as [[[[[[[ecC mxC] mnC] okC] rwC] rwpC] scC] wC].
  destruct HC as (_ & _ & -> & -> & -> & HPC & GC).
  (* region D *)
  set (stD := (if ri2 =? ri3 then (Z.max 0 (ri3 + 1 - window - ldiffr), Z.max 0 (ri3 + 1 - window - ldiffr) + 1) else (1 + ri3 - ri2, 2))).
  assert (EstD : stD = ((if ri2 =? ri3 then Z.max 0 (ri3 + 1 - window - ldiffr) else 1 + ri3 - ri2),
                        (if ri2 =? ri3 then Z.max 0 (ri3 + 1 - window - ldiffr) + 1 else 2))) by (unfold stD; destruct (ri2 =? ri3); reflexivity).
  rewrite EstD.
  assert (HD : RInvD (Z.to_nat l1) (fold_left (c_dtw_warping_paths_ndim_euclidean_loop20 zp1b l1 l2 ndim B ms (Fin pen) W s1 s2 wl) (zrange ri3 l1)
                       (ecC, (if ri2 =? ri3 then Z.max 0 (ri3 + 1 - window - ldiffr) else 1 + ri3 - ri2), true,
                        (Z.of_nat (Z.to_nat ri3) + 1) * W, Z.of_nat (Z.to_nat ri3) * W, scC, wC,
                        (if ri2 =? ri3 then Z.max 0 (ri3 + 1 - window - ldiffr) + 1 else 2)))).
  { apply (CWpsSpec.region_fold 0%nat 0%nat RInvD); [lia| |].
    - unfold RInvD. split; [lia|]. split; [lia|]. split; [reflexivity|]. split; [reflexivity|]. split; [reflexivity|]. split; [exact HPC|exact GC].
    - intros k s Hk Hs. apply stepD; [lia|exact Hs]. }
  destruct (fold_left (c_dtw_warping_paths_ndim_euclidean_loop20 zp1b l1 l2 ndim B ms (Fin pen) W s1 s2 wl) (zrange ri3 l1)
              (ecC, (if ri2 =? ri3 then Z.max 0 (ri3 + 1 - window - ldiffr) else 1 + ri3 - ri2), true,
               (Z.of_nat (Z.to_nat ri3) + 1) * W, Z.of_nat (Z.to_nat ri3) * W, scC, wC,
               (if ri2 =? ri3 then Z.max 0 (ri3 + 1 - window - ldiffr) + 1 else 2)))
    as [[[[[[[ecD mnD] okD] rwD] rwpD] scD] wD] wsD].
  destruct HD as (_ & _ & -> & _ & _ & _ & GD).
  exists wD. split; [reflexivity|exact GD].
Qed.
End SpecB.
