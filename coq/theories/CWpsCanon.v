(* The loop bodies shared by the kernels that fill the compact warping-paths array (Gen_cwpsk.v:
   dtw_warping_paths_ndim and dtw_warping_paths_ndim_euclidean, each with four row regions A-D): one canonical cell
   loop, parameterised by the point distance and by the two previous-row read offsets (regions A, B, D read the
   diagonal at wpsi - 1 and the upper cell at wpsi; region C, whose rows shift by one, at wpsi and wpsi + 1), and one
   canonical fill loop.  The regenerated bodies are instances (proved by unfolding; the coordinate loop of the point
   distance by CDistTie.nd_fold_ok). *)
From Coq Require Import ZArith Bool List Lia.
From DV Require Import Prelude Cost CLang CDistCanon CDistTie.
From DVGen Require Import Gen_cwpsk.
Import ListNotations.
Open Scope Z_scope.
Open Scope bool_scope.

Definition stw : Type := Z * bool * Z * bool * list cost * Z * bool.   (* (ec_next, ok, sc, smaller_found, wps, wpsi, brk) *)

(* for (i=a; i<b; i++) wps[i] = INFINITY; *)
Definition k_wfill (wps_len : Z) (st : bool * list cost) (i : Z) : bool * list cost :=
  let '(ok, wps) := st in
  let ok := ok && inb wps_len i in
  let wps := aset wps i Inf in
  (ok, wps).

(* for (; ci<sc; ci++) { wps[ri_width + wpsi] = INFINITY; wpsi++; } *)
Definition k_wskip (ri_width wps_len : Z) (st : bool * list cost * Z) (ci : Z) : bool * list cost * Z :=
  let '(ok, wps, wpsi) := st in
  let ok := ok && inb wps_len (ri_width + wpsi) in
  let wps := aset wps (ri_width + wpsi) Inf in
  let wpsi := (wpsi + 1) in
  (ok, wps, wpsi).

Section Cell.
Variables (dok : Z -> bool) (dfun : Z -> cost).      (* point distance of (this row, column ci) *)
Variables (fd fu : Z -> Z).                          (* previous-row read positions relative to ri_widthp + wpsi *)

Definition k_wcell (ec : Z) (p_max_dist p_max_step p_penalty : cost) (ri_width ri_widthp wps_len : Z) (st : stw) (ci : Z) : stw :=
  let '(ec_next, ok, sc, smaller_found, wps, wpsi, brk) := st in
  if brk then st else
  let ok := ok && dok ci in
  let d := dfun ci in
  if (cltb p_max_step d) then (
  let ok := ok && inb wps_len (ri_width + wpsi) in
  let wps := aset wps (ri_width + wpsi) Inf in
  let wpsi := (wpsi + 1) in
  (ec_next, ok, sc, smaller_found, wps, wpsi, false)) else (
  let ok := ok && inb wps_len ((ri_width + wpsi) - 1) in
  let ok := ok && inb wps_len (fd (ri_widthp + wpsi)) in
  let ok := ok && inb wps_len (fu (ri_widthp + wpsi)) in
  let ok := ok && inb wps_len (ri_width + wpsi) in
  let wps := aset wps (ri_width + wpsi) (cadd d (cmin (cmin (cadd (aget wps ((ri_width + wpsi) - 1)) p_penalty) (aget wps (fd (ri_widthp + wpsi)))) (cadd (aget wps (fu (ri_widthp + wpsi))) p_penalty))) in
  let ok := ok && inb wps_len (ri_width + wpsi) in
  let k4 := fun (ec_next : Z) (sc : Z) (smaller_found : bool) => (
  let wpsi := (wpsi + 1) in
  (ec_next, ok, sc, smaller_found, wps, wpsi, false)) in
  if (cleb (aget wps (ri_width + wpsi)) p_max_dist) then (
  let smaller_found := true in
  let ec_next := (ci + 1) in
  k4 ec_next sc smaller_found) else (
  let sc := (if (negb smaller_found) then (ci + 1) else sc) in
  if (ci >=? ec) then (
  (ec_next, ok, sc, smaller_found, wps, wpsi, true)) else (
  k4 ec_next sc smaller_found))).
End Cell.

Definition fdA (x : Z) : Z := x - 1.     (* regions A, B, D *)
Definition fuA (x : Z) : Z := x.
Definition fdC (x : Z) : Z := x.         (* region C *)
Definition fuC (x : Z) : Z := x + 1.

(* the point distance as the kernels compute it: the coordinate loop of CDistTie (nd_step) over the strided series *)
Definition wdok (l1 l2 ndim : Z) (s1 s2 : list Z) (ri_idx : Z) (ci : Z) : bool :=
  snd (fold_left (nd_step ri_idx (ci * ndim) l1 l2 ndim s1 s2) (zrange 0 ndim) (Fin 0, true)).
Definition wdfun_sq (l1 l2 ndim : Z) (s1 s2 : list Z) (ri_idx : Z) (ci : Z) : cost :=
  fst (fold_left (nd_step ri_idx (ci * ndim) l1 l2 ndim s1 s2) (zrange 0 ndim) (Fin 0, true)).
Definition wdfun_eu (l1 l2 ndim : Z) (s1 s2 : list Z) (ri_idx : Z) (ci : Z) : cost :=
  csqrt (wdfun_sq l1 l2 ndim s1 s2 ri_idx ci).

(* ------------------------------------------------------------------ ties: squared kernel *)
Ltac tie_fill := intros; repeat match goal with st : _ * _ |- _ => destruct st end; reflexivity.

Lemma tie_sq_fill9 a st i : c_dtw_warping_paths_ndim_loop9 a st i = k_wfill a st i. Proof. tie_fill. Qed.
Lemma tie_sq_fill14 a st i : c_dtw_warping_paths_ndim_loop14 a st i = k_wfill a st i. Proof. tie_fill. Qed.
Lemma tie_sq_fill19 a st i : c_dtw_warping_paths_ndim_loop19 a st i = k_wfill a st i. Proof. tie_fill. Qed.
Lemma tie_sq_fill21 a st i : c_dtw_warping_paths_ndim_loop21 a st i = k_wfill a st i. Proof. tie_fill. Qed.
Lemma tie_sq_fill25 a st i : c_dtw_warping_paths_ndim_loop25 a st i = k_wfill a st i. Proof. tie_fill. Qed.
Lemma tie_sq_skip6 a b st i : c_dtw_warping_paths_ndim_loop6 a b st i = k_wskip a b st i. Proof. tie_fill. Qed.
Lemma tie_sq_skip11 a b st i : c_dtw_warping_paths_ndim_loop11 a b st i = k_wskip a b st i. Proof. tie_fill. Qed.
Lemma tie_sq_skip16 a b st i : c_dtw_warping_paths_ndim_loop16 a b st i = k_wskip a b st i. Proof. tie_fill. Qed.
Lemma tie_sq_skip22 a b st i : c_dtw_warping_paths_ndim_loop22 a b st i = k_wskip a b st i. Proof. tie_fill. Qed.

Lemma tie_sq_d8 ci_idx l1 l2 ndim ri_idx s1 s2 st d_i :
  c_dtw_warping_paths_ndim_loop8 ci_idx l1 l2 ndim ri_idx s1 s2 st d_i = nd_step ri_idx ci_idx l1 l2 ndim s1 s2 st d_i.
Proof. destruct st. reflexivity. Qed.
Lemma tie_sq_d13 ci_idx l1 l2 ndim ri_idx s1 s2 st d_i :
  c_dtw_warping_paths_ndim_loop13 ci_idx l1 l2 ndim ri_idx s1 s2 st d_i = nd_step ri_idx ci_idx l1 l2 ndim s1 s2 st d_i.
Proof. destruct st. reflexivity. Qed.
Lemma tie_sq_d18 ci_idx l1 l2 ndim ri_idx s1 s2 st d_i :
  c_dtw_warping_paths_ndim_loop18 ci_idx l1 l2 ndim ri_idx s1 s2 st d_i = nd_step ri_idx ci_idx l1 l2 ndim s1 s2 st d_i.
Proof. destruct st. reflexivity. Qed.
Lemma tie_sq_d24 ci_idx l1 l2 ndim ri_idx s1 s2 st d_i :
  c_dtw_warping_paths_ndim_loop24 ci_idx l1 l2 ndim ri_idx s1 s2 st d_i = nd_step ri_idx ci_idx l1 l2 ndim s1 s2 st d_i.
Proof. destruct st. reflexivity. Qed.

Ltac tie_cell tied :=
  intros; match goal with st : stw |- _ => destruct st as [[[[[[? ?] ?] ?] ?] ?] ?] end;
  unfold k_wcell; match goal with |- ?f _ _ _ _ _ _ _ _ _ _ _ _ _ _ _ = _ => unfold f end;
  match goal with |- (if ?b then _ else _) = _ => destruct b end; [reflexivity|]; cbv zeta;
  rewrite (fold_left_ext _ _ _ _ (tied _ _ _ _ _ _ _)); rewrite nd_fold_ok;
  unfold wdok, wdfun_sq, wdfun_eu, fdA, fuA, fdC, fuC; reflexivity.

Lemma tie_sq_cell7 ec l1 l2 ndim md ms pen ri_idx rw rwp s1 s2 wl (st : stw) ci :
  c_dtw_warping_paths_ndim_loop7 ec l1 l2 ndim md ms pen ri_idx rw rwp s1 s2 wl st ci =
  k_wcell (wdok l1 l2 ndim s1 s2 ri_idx) (wdfun_sq l1 l2 ndim s1 s2 ri_idx) fdA fuA ec md ms pen rw rwp wl st ci.
Proof. tie_cell tie_sq_d8. Qed.
Lemma tie_sq_cell12 ec l1 l2 ndim md ms pen ri_idx rw rwp s1 s2 wl (st : stw) ci :
  c_dtw_warping_paths_ndim_loop12 ec l1 l2 ndim md ms pen ri_idx rw rwp s1 s2 wl st ci =
  k_wcell (wdok l1 l2 ndim s1 s2 ri_idx) (wdfun_sq l1 l2 ndim s1 s2 ri_idx) fdA fuA ec md ms pen rw rwp wl st ci.
Proof. tie_cell tie_sq_d13. Qed.
Lemma tie_sq_cell17 ec l1 l2 ndim md ms pen ri_idx rw rwp s1 s2 wl (st : stw) ci :
  c_dtw_warping_paths_ndim_loop17 ec l1 l2 ndim md ms pen ri_idx rw rwp s1 s2 wl st ci =
  k_wcell (wdok l1 l2 ndim s1 s2 ri_idx) (wdfun_sq l1 l2 ndim s1 s2 ri_idx) fdC fuC ec md ms pen rw rwp wl st ci.
Proof. tie_cell tie_sq_d18. Qed.
Lemma tie_sq_cell23 ec l1 l2 ndim md ms pen ri_idx rw rwp s1 s2 wl (st : stw) ci :
  c_dtw_warping_paths_ndim_loop23 ec l1 l2 ndim md ms pen ri_idx rw rwp s1 s2 wl st ci =
  k_wcell (wdok l1 l2 ndim s1 s2 ri_idx) (wdfun_sq l1 l2 ndim s1 s2 ri_idx) fdA fuA ec md ms pen rw rwp wl st ci.
Proof. tie_cell tie_sq_d24. Qed.

(* ------------------------------------------------------------------ the part after the row regions *)
(* the text of dtw_warping_paths_ndim from `seq_t rvalue = 0` to the return statement (value scans with their
   break, -1 marks, final comparison with the bound, sqrt pass), over the regenerated loop bodies; CWpsSpec.v shows
   by reflexivity that the regenerated function ends with exactly this *)
Definition k_wtail (call_dtw_wps_shift : Z -> Z) (return_dtw keep_int_repr psi_neg : bool) (l1 l2 p_width wps_len p_length : Z)
  (p_max_dist : cost) (settings_psi_1e settings_psi_2e : Z) (ok : bool) (wps : list cost) : cret * list cost * bool :=
let rvalue := (Fin 0) in
let final_wpsi := (((l1 * p_width) + l2) - (call_dtw_wps_shift (l1 - 1))) in
let '(ok, rvalue, wps) := (if ((return_dtw && (settings_psi_1e =? 0)) && (settings_psi_2e =? 0)) then (
let ok := ok && inb wps_len final_wpsi in
let rvalue := (aget wps final_wpsi) in
(ok, rvalue, wps)) else (
let '(ok, rvalue, wps) := (if return_dtw then (
let mir_value := Inf in
let mir_rel := l1 in
let mic_value := Inf in
let mic := l2 in
let '(mir_rel, mir_value, ok) := (if (negb (settings_psi_1e =? 0)) then (
let '(mir_rel, mir_value, ok, _) := fold_left (c_dtw_warping_paths_ndim_loop26 call_dtw_wps_shift settings_psi_1e l1 l2 p_width wps wps_len) (zdown l1 0) (mir_rel, mir_value, ok, false) in
(mir_rel, mir_value, ok)) else (
(mir_rel, mir_value, ok))) in
let '(mic, mic_value, ok) := (if (negb (settings_psi_2e =? 0)) then (
let '(mic, mic_value, ok, _) := fold_left (c_dtw_warping_paths_ndim_loop27 call_dtw_wps_shift settings_psi_2e l1 l2 p_width wps wps_len) (zdown l2 0) (mic, mic_value, ok, false) in
(mic, mic_value, ok)) else (
(mic, mic_value, ok))) in
let '(ok, rvalue, wps) := (if (cltb mir_value mic_value) then (
let '(ok, wps) := (if psi_neg then (
let '(ok, wps) := fold_left (c_dtw_warping_paths_ndim_loop28 call_dtw_wps_shift l2 p_width wps_len) (zrange (mir_rel + 1) (l1 + 1)) (ok, wps) in
(ok, wps)) else (
(ok, wps))) in
let rvalue := mir_value in
(ok, rvalue, wps)) else (
let '(ok, wps) := (if psi_neg then (
let '(ok, wps) := fold_left (c_dtw_warping_paths_ndim_loop29 call_dtw_wps_shift l1 p_width wps_len) (zrange (mic + 1) (l2 + 1)) (ok, wps) in
(ok, wps)) else (
(ok, wps))) in
let rvalue := mic_value in
(ok, rvalue, wps))) in
(ok, rvalue, wps)) else (
let rvalue := (Fin (- 1)) in
(ok, rvalue, wps))) in
(ok, rvalue, wps))) in
let rvalue := (if (cltb p_max_dist rvalue) then Inf else rvalue) in
let '(ok, rvalue, wps) := (if (negb keep_int_repr) then (
let '(ok, wps) := fold_left (c_dtw_warping_paths_ndim_loop30 wps_len) (zrange 0 p_length) (ok, wps) in
let rvalue := (if return_dtw then (if (cltb (Fin 0) rvalue) then (csqrt rvalue) else rvalue) else rvalue) in
(ok, rvalue, wps)) else (
(ok, rvalue, wps))) in
(RPlain rvalue, wps, ok).
