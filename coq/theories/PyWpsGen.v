(* dtw.warping_paths AS REGENERATED (Gen_pywps.v: the function body from the length test to the end of the row loop,
   translated by tools/pyfun.py - the (r+1) x (c+1) NumPy matrix as a flat row-major list, 2-D subscripts with both
   coordinates checked, sc / ec / ec_next / smaller_found / break) fills the matrix that the hand model
   PyWps.wps_code_matrix describes, cell by cell, and no subscript is out of range.  PyWpsProofs.v proves that matrix
   equal to the specification matrix (cell-wise optimal; with a bound: equal, or both above the bound). *)
From Coq Require Import ZArith Bool List Lia.
From DV Require Import Prelude Cost Grid Dtw DtwSpec DtwProps BandTie PyDist PyDistProofs Prune PyDistPrune PyWps PyWpsProofs
                       CLang CDistCanon CDistProofs CDistSpec.
From DVGen Require Import Gen_dtw Gen_pywps.
Import ListNotations.
Open Scope Z_scope.

(* ------------------------------------------------------------------ a matrix of rows of length n in a flat list *)
Section Flat.
Variable n : nat.
Hypothesis Hn : (1 <= n)%nat.
Local Notation zn := (Z.of_nat n).

Lemma flat_idx_inj k q k' q' : (q < n)%nat -> (q' < n)%nat ->
  Z.of_nat k * zn + Z.of_nat q = Z.of_nat k' * zn + Z.of_nat q' -> k = k' /\ q = q'.
Proof. intros Hq Hq' E. assert (k = k') by nia. subst k'. split; [reflexivity|lia]. Qed.

Lemma flat_idx_bound k q rows : (k < rows)%nat -> (q < n)%nat ->
  0 <= Z.of_nat k * zn + Z.of_nat q < Z.of_nat (rows * n).
Proof. intros Hk Hq. nia. Qed.

Lemma flat_aset_same dtw rows k row q v : (k < rows)%nat -> length dtw = (rows * n)%nat -> length row = n -> (q < n)%nat ->
  rowis n dtw (Z.of_nat k) row -> rowis n (aset dtw (Z.of_nat k * zn + Z.of_nat q) v) (Z.of_nat k) (upd_nat row q v).
Proof.
  intros Hk Hl Hr Hq H q' Hq'. destruct (Nat.eq_dec q q') as [<-|Hne].
  - rewrite aget_aset_same by (pose proof (flat_idx_bound k q rows Hk Hq); lia). rewrite rget_upd_same by lia. reflexivity.
  - rewrite aget_aset_other by lia. rewrite rget_upd_other by exact Hne. apply H. exact Hq'.
Qed.

Lemma flat_aset_other dtw k k' row q v : k <> k' -> (q < n)%nat ->
  rowis n dtw (Z.of_nat k') row -> rowis n (aset dtw (Z.of_nat k * zn + Z.of_nat q) v) (Z.of_nat k') row.
Proof.
  intros Hne Hq H q' Hq'. rewrite aget_aset_other; [apply H; exact Hq'|].
  intros E. destruct (flat_idx_inj k q k' q' Hq Hq' E) as [E1 _]. exact (Hne E1).
Qed.

Lemma flat_inb rows k q : (k < rows)%nat -> (q < n)%nat ->
  inb (Z.of_nat rows) (Z.of_nat k) = true /\ inb zn (Z.of_nat q) = true.
Proof. intros Hk Hq. split; apply inb_nat; assumption. Qed.
End Flat.

Section Refine.
Variable u : usettings.
Variables s1 s2 : list point.
Variable B : cost.
Variable idist : Z -> Z -> cost.
Variables f1 f2 : list Z.
Local Notation r := (length s1).
Local Notation c := (length s2).
Local Notation w := (eff_window u r c).
Local Notation zr := (Z.of_nat r).
Local Notation zc := (Z.of_nat c).
Hypothesis Hw : 1 <= w.
Hypothesis Hr : (1 <= r)%nat.
Hypothesis Hc : (1 <= c)%nat.
Hypothesis Hp1b : (psi_1b u <= r)%nat.
Hypothesis Hp2b : (psi_2b u <= c)%nat.
Hypothesis Hd : forall i j, (i < r)%nat -> (j < c)%nat ->
  idist (Z.of_nat i) (Z.of_nat j) = Fin (pdist (u_inner u) (nth i s1 []) (nth j s2 [])).

Local Notation n := (c + 1)%nat.
Local Notation zn := (zc + 1).
Local Notation rows := (r + 1)%nat.
Local Notation ms := (adj_max_step u).
Local Notation pen := (Fin (adj_penalty u)).
Local Notation jS := (wjs u s1 s2).
Local Notation jE := (wje u s1 s2).

Lemma zn_nat : zn = Z.of_nat n. Proof. lia. Qed.

Lemma wgeom i : (i < r)%nat -> (jE i <= c)%nat.
Proof. intros Hi. unfold wje, py_wps_j_end. lia. Qed.

(* ------------------------------------------------------------------ the cell loop of row i (matrix rows i and i+1) *)
Section CellLoop.
Variables (i : nat) (prev : list cost) (ec : nat).
Variable G : nat -> list cost.                    (* the other rows, untouched by this row's loop *)
Hypothesis Hi : (i < r)%nat.

Definition R5w (cst : st5) (pst : pst) : Prop :=
  let '(dtw, ecn, ok, sc, sf, brk) := cst in
  length dtw = (rows * n)%nat /\ rowis n dtw (Z.of_nat i) prev /\ rowis n dtw (Z.of_nat (S i)) (p_cur pst) /\ length (p_cur pst) = n /\
  (forall k, (k <= r)%nat -> k <> S i -> rowis n dtw (Z.of_nat k) (G k)) /\
  ecn = Z.of_nat (p_ecn pst) /\ ok = true /\ sc = Z.of_nat (p_sc pst) /\ sf = p_smaller pst /\ brk = p_stop pst.

Lemma wps_loop4_step j cst pst : (j < c)%nat -> R5w cst pst ->
  R5w (py_wps_fill_loop4 idist B ms true pen zn (zr + 1) (Z.of_nat ec) (Z.of_nat i) (Z.of_nat i) (Z.of_nat i + 1) zr zc f1 f2 cst (Z.of_nat j))
      (pstep u s1 s2 B i 0 0 prev ec pst j).
Proof.
  intros Hj. destruct cst as [[[[[dtw ecn] ok] sc] sf] brk]. intros (Hlen & Hp & Hc1 & Hlc & HG & -> & -> & -> & -> & ->).
  unfold py_wps_fill_loop4, pstep. destruct (p_stop pst) eqn:Estop.
  { unfold R5w. rewrite Estop. auto 12. }
  rewrite (Hd i j Hi Hj). rewrite !inb_nat by assumption. cbn [andb].
  unfold cltb at 1. destruct (cleb (Fin (pdist (u_inner u) (nth i s1 []) (nth j s2 []))) ms) eqn:Ems; cbn [negb].
  2:{ unfold R5w. rewrite Estop. auto 12. }
  rewrite !zn_nat. replace (zr + 1) with (Z.of_nat rows) by lia. replace (Z.of_nat i + 1) with (Z.of_nat (S i)) by lia.
  replace (Z.of_nat j + 1) with (Z.of_nat (S j)) by lia.
  rewrite !inb_nat by lia. cbn [andb]. cbv zeta.
  rewrite (Hp j) by lia. rewrite (Hp (S j)) by lia. rewrite (Hc1 j) by lia.
  replace (j - 0)%nat with j by lia. replace (j + 1 - 0)%nat with (S j) by lia.
  set (v := cadd (Fin (pdist (u_inner u) (nth i s1 []) (nth j s2 [])))
                 (cmin (cmin (rget prev j) (cadd (rget prev (S j)) pen)) (cadd (rget (p_cur pst) j) pen))).
  assert (Ev : code_cell (adj_penalty u) (Fin (pdist (u_inner u) (nth i s1 []) (nth j s2 []))) (rget prev j)
                         (rget prev (S j)) (rget (p_cur pst) j) = v) by reflexivity.
  rewrite Ev.
  assert (Hn1 : (1 <= n)%nat) by lia.
  rewrite aget_aset_same by (pose proof (flat_idx_bound n Hn1 (S i) (S j) rows ltac:(lia) ltac:(lia)); lia).
  assert (Hrow1 : rowis n (aset dtw (Z.of_nat (S i) * Z.of_nat n + Z.of_nat (S j)) v) (Z.of_nat (S i)) (upd_nat (p_cur pst) (S j) v)).
  { apply (flat_aset_same n Hn1 dtw rows); try assumption; lia. }
  assert (Hrow0 : rowis n (aset dtw (Z.of_nat (S i) * Z.of_nat n + Z.of_nat (S j)) v) (Z.of_nat i) prev).
  { apply flat_aset_other; try assumption; lia. }
  assert (HG' : forall k, (k <= r)%nat -> k <> S i -> rowis n (aset dtw (Z.of_nat (S i) * Z.of_nat n + Z.of_nat (S j)) v) (Z.of_nat k) (G k)).
  { intros k Hk Hne. apply flat_aset_other; try lia. apply HG; assumption. }
  assert (Hlen' : length (aset dtw (Z.of_nat (S i) * Z.of_nat n + Z.of_nat (S j)) v) = (rows * n)%nat) by (rewrite aset_length; exact Hlen).
  assert (Hlc' : length (upd_nat (p_cur pst) (S j) v) = n) by (rewrite upd_nat_length; exact Hlc).
  unfold cltb. destruct (cleb v B) eqn:EvB; cbn [negb].
  - unfold R5w. cbn [p_cur p_sc p_smaller p_ecn p_stop]. repeat split; try assumption; try reflexivity. lia.
  - destruct (Z.geb_spec (Z.of_nat j) (Z.of_nat ec)) as [Hge|Hlt].
    + unfold R5w. cbn [p_cur p_sc p_smaller p_ecn p_stop].
      replace (ec <=? j)%nat with true by (symmetry; apply Nat.leb_le; lia).
      repeat split; try assumption; try reflexivity. destruct (p_smaller pst); cbn [negb]; lia.
    + unfold R5w. cbn [p_cur p_sc p_smaller p_ecn p_stop].
      replace (ec <=? j)%nat with false by (symmetry; apply Nat.leb_gt; lia).
      repeat split; try assumption; try reflexivity. destruct (p_smaller pst); cbn [negb]; lia.
Qed.
End CellLoop.

(* ------------------------------------------------------------------ the matrix before the row loop *)
Definition cell0 (k q : nat) : cost :=
  if ((k =? 0)%nat && (q <=? psi_2b u)%nat) || ((q =? 0)%nat && (k <=? psi_1b u)%nat) then Fin 0 else Inf.

Lemma n_pos : (1 <= n)%nat. Proof. lia. Qed.

Lemma wps_init_spec :
  exists dtw, fold_left (py_wps_fill_loop2 zn (zr + 1)) (zrange 0 (Z.of_nat (psi_1b u) + 1))
                (fold_left (py_wps_fill_loop1 zn (zr + 1)) (zrange 0 (Z.of_nat (psi_2b u) + 1))
                   (amake (fun _ => Inf) ((zr + 1) * zn), true)) = (dtw, true) /\
    length dtw = (rows * n)%nat /\
    forall k q, (k <= r)%nat -> (q < n)%nat -> aget dtw (Z.of_nat k * Z.of_nat n + Z.of_nat q) = cell0 k q.
Proof.
  pose (P1 := fun (t : nat) (st : st2) => snd st = true /\ length (fst st) = (rows * n)%nat /\
     forall k q, (k <= r)%nat -> (q < n)%nat ->
       aget (fst st) (Z.of_nat k * Z.of_nat n + Z.of_nat q) = if (k =? 0)%nat && (q <? t)%nat then Fin 0 else Inf).
  assert (H1 : P1 (psi_2b u + 1)%nat (fold_left (py_wps_fill_loop1 zn (zr + 1)) (zrange 0 (Z.of_nat (psi_2b u) + 1))
                                        (amake (fun _ => Inf) ((zr + 1) * zn), true))).
  { replace (Z.of_nat (psi_2b u) + 1) with (Z.of_nat (psi_2b u + 1)) by lia. apply fold_zrange_inv.
    - unfold P1; cbn [fst snd]. repeat split; [rewrite amake_length; lia|]. intros k q Hk Hq.
      pose proof (flat_idx_bound n n_pos k q rows ltac:(lia) Hq) as Hb.
      replace ((zr + 1) * zn) with (Z.of_nat (rows * n)) by lia.
      replace (Z.of_nat k * Z.of_nat n + Z.of_nat q) with (Z.of_nat (k * n + q)) by lia.
      rewrite aget_amake by nia. destruct (k =? 0)%nat; cbn [andb]; [destruct (Nat.ltb_spec q 0); [lia|reflexivity]|reflexivity].
    - intros t [d ok] Ht (Hok & Hl & Hz). cbn [fst snd] in *. subst ok. unfold py_wps_fill_loop1, P1. cbn [fst snd].
      rewrite zn_nat. replace (zr + 1) with (Z.of_nat rows) by lia.
      replace (inb (Z.of_nat rows) 0) with true by (symmetry; apply (inb_nat rows 0); lia).
      replace (0 * Z.of_nat n + Z.of_nat t) with (Z.of_nat 0 * Z.of_nat n + Z.of_nat t) by lia.
      rewrite !inb_nat by lia. cbn [andb]. split; [reflexivity|]. split; [rewrite aset_length; exact Hl|].
      intros k q Hk Hq. destruct (Nat.eq_dec k 0) as [->|Hk0].
      + destruct (Nat.eq_dec q t) as [->|Hqt].
        * rewrite aget_aset_same by (pose proof (flat_idx_bound n n_pos 0 t rows ltac:(lia) Hq); lia).
          cbn [Nat.eqb andb]. destruct (Nat.ltb_spec t (S t)); [reflexivity|lia].
        * rewrite aget_aset_other by lia. rewrite Hz by assumption. cbn [Nat.eqb andb].
          destruct (Nat.ltb_spec q t), (Nat.ltb_spec q (S t)); try reflexivity; lia.
      + rewrite aget_aset_other by (intros E; destruct (flat_idx_inj n n_pos 0 t k q ltac:(lia) Hq E); lia).
        rewrite Hz by assumption. replace (k =? 0)%nat with false by (symmetry; apply Nat.eqb_neq; exact Hk0). reflexivity. }
  destruct (fold_left (py_wps_fill_loop1 zn (zr + 1)) (zrange 0 (Z.of_nat (psi_2b u) + 1)) (amake (fun _ => Inf) ((zr + 1) * zn), true)) as [d1 ok1].
  destruct H1 as (Hok1 & Hl1 & Hz1). cbn [fst snd] in *. subst ok1.
  pose (P2 := fun (t : nat) (st : st2) => snd st = true /\ length (fst st) = (rows * n)%nat /\
     forall k q, (k <= r)%nat -> (q < n)%nat ->
       aget (fst st) (Z.of_nat k * Z.of_nat n + Z.of_nat q) =
       if ((k =? 0)%nat && (q <=? psi_2b u)%nat) || ((q =? 0)%nat && (k <? t)%nat) then Fin 0 else Inf).
  assert (H2 : P2 (psi_1b u + 1)%nat (fold_left (py_wps_fill_loop2 zn (zr + 1)) (zrange 0 (Z.of_nat (psi_1b u) + 1)) (d1, true))).
  { replace (Z.of_nat (psi_1b u) + 1) with (Z.of_nat (psi_1b u + 1)) by lia. apply fold_zrange_inv.
    - unfold P2; cbn [fst snd]. repeat split; [exact Hl1|]. intros k q Hk Hq. rewrite Hz1 by assumption.
      replace (k <? 0)%nat with false by (symmetry; apply Nat.ltb_ge; lia). rewrite andb_false_r, orb_false_r.
      destruct (k =? 0)%nat; cbn [andb]; [|reflexivity].
      destruct (Nat.ltb_spec q (psi_2b u + 1)), (Nat.leb_spec q (psi_2b u)); try reflexivity; lia.
    - intros t [d ok] Ht (Hok & Hl & Hz). cbn [fst snd] in *. subst ok. unfold py_wps_fill_loop2, P2. cbn [fst snd].
      rewrite zn_nat. replace (zr + 1) with (Z.of_nat rows) by lia.
      replace (inb (Z.of_nat n) 0) with true by (symmetry; apply (inb_nat n 0); lia).
      replace (Z.of_nat t * Z.of_nat n + 0) with (Z.of_nat t * Z.of_nat n + Z.of_nat 0) by lia.
      rewrite !inb_nat by lia. cbn [andb]. split; [reflexivity|]. split; [rewrite aset_length; exact Hl|].
      intros k q Hk Hq. destruct (Nat.eq_dec q 0) as [->|Hq0].
      + destruct (Nat.eq_dec k t) as [->|Hkt].
        * rewrite aget_aset_same by (pose proof (flat_idx_bound n n_pos t 0 rows ltac:(lia) Hq); lia).
          cbn [Nat.eqb]. replace (t <? S t)%nat with true by (symmetry; apply Nat.ltb_lt; lia). cbn [andb]. rewrite orb_true_r. reflexivity.
        * rewrite aget_aset_other by (intros E; destruct (flat_idx_inj n n_pos t 0 k 0 ltac:(lia) Hq E); lia).
          rewrite Hz by assumption. cbn [Nat.eqb andb].
          destruct (Nat.ltb_spec k t), (Nat.ltb_spec k (S t)); try reflexivity; lia.
      + rewrite aget_aset_other by (intros E; destruct (flat_idx_inj n n_pos t 0 k q ltac:(lia) Hq E); lia).
        rewrite Hz by assumption. replace (q =? 0)%nat with false by (symmetry; apply Nat.eqb_neq; exact Hq0). reflexivity. }
  destruct (fold_left (py_wps_fill_loop2 zn (zr + 1)) (zrange 0 (Z.of_nat (psi_1b u) + 1)) (d1, true)) as [d2 ok2].
  destruct H2 as (Hok2 & Hl2 & Hz2). cbn [fst snd] in *. subst ok2. exists d2. repeat split; [exact Hl2|].
  intros k q Hk Hq. rewrite Hz2 by assumption. unfold cell0.
  replace (k <? psi_1b u + 1)%nat with (k <=? psi_1b u)%nat; [reflexivity|].
  destruct (Nat.ltb_spec k (psi_1b u + 1)), (Nat.leb_spec k (psi_1b u)); try reflexivity; lia.
Qed.

(* ------------------------------------------------------------------ the row loop *)
Local Notation zp1b := (Z.of_nat (psi_1b u)).

Definition WInv (i : nat) (cst : list cost * Z * bool * Z) : Prop :=
  let '(dtw, ec, ok, sc) := cst in
  let '(acc, prev, sc', ec') := wrows u s1 s2 B i in
  length dtw = (rows * n)%nat /\ length acc = S i /\ prev = nth i acc [] /\
  (forall k, (k <= i)%nat -> rowis n dtw (Z.of_nat k) (nth k acc []) /\ length (nth k acc []) = n) /\
  (forall k q, (i < k <= r)%nat -> (q < n)%nat -> aget dtw (Z.of_nat k * Z.of_nat n + Z.of_nat q) = cell0 k q) /\
  ok = true /\ sc = Z.of_nat sc' /\ ec = Z.of_nat ec'.

Lemma winit_row i : (S i <= r)%nat -> forall q, (q < n)%nat -> cell0 (S i) q = rget (wrow_init u s2 i) q.
Proof.
  intros Hi q Hq. unfold cell0, wrow_init, rget. cbn [Nat.eqb andb orb].
  destruct (Nat.eq_dec q 0) as [->|Hq0].
  - rewrite nth_upd_nat_eq by (rewrite repeat_length; lia). cbn [Nat.eqb andb]. reflexivity.
  - rewrite nth_upd_nat_neq by lia. rewrite nth_repeat_inf.
    replace (q =? 0)%nat with false by (symmetry; apply Nat.eqb_neq; exact Hq0). reflexivity.
Qed.

Lemma wps_geom i : Z.max 0 (Z.of_nat i - Z.max 0 (zr - zc) - w + 1) = Z.of_nat (jS i) /\
                   Z.min zc (Z.of_nat i + Z.max 0 (zc - zr) + w) = Z.of_nat (jE i).
Proof. unfold wjs, wje, py_wps_j_start, py_wps_j_end. lia. Qed.

Lemma wps_row_step i cst : (i < r)%nat -> WInv i cst ->
  WInv (S i) (py_wps_fill_loop3 idist B ms true pen w zc zn (zr + 1) zr zc zp1b zr f1 f2 cst (Z.of_nat i)).
Proof.
  intros Hi. destruct cst as [[[dtw ec] ok] sc]. unfold WInv at 1.
  destruct (wrows u s1 s2 B i) as [[[acc prev] sc'] ec'] eqn:Ew.
  intros (Hlen & Hla & Hprev & Hrows & Hrest & -> & -> & ->).
  destruct (wps_geom i) as (Ejs & Eje).
  unfold py_wps_fill_loop3. cbv zeta. rewrite Ejs, Eje.
  rewrite zleb_nat.
  set (sc1 := (if (i <=? psi_1b u)%nat then 0 else sc')%nat).
  replace (if (i <=? psi_1b u)%nat then 0 else Z.of_nat sc') with (Z.of_nat sc1)
    by (unfold sc1; destruct (i <=? psi_1b u)%nat; reflexivity).
  rewrite zmax_nat. set (j0 := Nat.max (jS i) sc1).
  unfold WInv. cbn [wrows]. rewrite Ew. unfold wrow_step. fold sc1. fold j0.
  set (pst0 := {| p_cur := wrow_init u s2 i; p_sc := sc1; p_smaller := false; p_ecn := i; p_stop := false |}).
  set (G := fun k : nat => if (k <=? i)%nat then nth k acc [] else map (cell0 k) (seq 0 n)).
  assert (HG : forall k, (k <= r)%nat -> k <> S i -> rowis n dtw (Z.of_nat k) (G k)).
  { intros k Hk Hne. unfold G. destruct (Nat.leb_spec k i) as [Hki|Hki].
    - apply Hrows. exact Hki.
    - intros q Hq. rewrite Hrest by (try exact Hq; lia). unfold rget. rewrite nth_map_seq by exact Hq. reflexivity. }
  assert (Hcur0 : rowis n dtw (Z.of_nat (S i)) (wrow_init u s2 i)).
  { intros q Hq. rewrite Hrest by (try exact Hq; lia). apply winit_row; [lia|exact Hq]. }
  assert (Hlc0 : length (wrow_init u s2 i) = n).
  { unfold wrow_init. rewrite upd_nat_length, repeat_length. reflexivity. }
  assert (HR0 : R5w i prev G (dtw, Z.of_nat i, true, Z.of_nat sc1, false, false) pst0).
  { unfold R5w, pst0. cbn [p_cur p_sc p_smaller p_ecn p_stop]. destruct (Hrows i (le_n _)) as [Hri _]. rewrite <- Hprev in Hri.
    repeat split; try assumption; reflexivity. }
  rewrite (zrange_trunc j0 (jE i)).
  pose proof (fold_sim (S := (list cost * Z * bool * Z * bool * bool)%type) (R5w i prev G)
                (py_wps_fill_loop4 idist B ms true pen zn (zr + 1) (Z.of_nat ec') (Z.of_nat i) (Z.of_nat i) (Z.of_nat i + 1) zr zc f1 f2)
                (pstep u s1 s2 B i 0 0 prev ec') (jE i - j0) j0 _ _ HR0) as HF.
  assert (Hstep : forall k s t, (j0 <= k < j0 + (jE i - j0))%nat -> R5w i prev G s t ->
            R5w i prev G
               (py_wps_fill_loop4 idist B ms true pen zn (zr + 1) (Z.of_nat ec') (Z.of_nat i) (Z.of_nat i) (Z.of_nat i + 1) zr zc f1 f2 s (Z.of_nat k))
               (pstep u s1 s2 B i 0 0 prev ec' t k)).
  { intros k s t Hk HRk. apply wps_loop4_step; try assumption. pose proof (wgeom i Hi). lia. }
  specialize (HF Hstep). clear Hstep.
  destruct (fold_left (py_wps_fill_loop4 idist B ms true pen zn (zr + 1) (Z.of_nat ec') (Z.of_nat i) (Z.of_nat i) (Z.of_nat i + 1) zr zc f1 f2)
              (zrange (Z.of_nat j0) (Z.of_nat (j0 + (jE i - j0)))) (dtw, Z.of_nat i, true, Z.of_nat sc1, false, false))
    as [[[[[dtw3 ecn3] ok3] sc3] sf3] brk3] eqn:Ef5.
  destruct (fold_left (pstep u s1 s2 B i 0 0 prev ec') (seq j0 (jE i - j0)) pst0) as [cur3 psc3 psm3 pecn3 pstop3] eqn:Efp.
  unfold R5w in HF. cbv beta iota zeta in HF. cbn [p_cur p_sc p_smaller p_ecn p_stop] in HF.
  destruct HF as (Hl3 & Hprev3 & Hcur3 & Hlc3 & HG3 & -> & -> & -> & -> & ->).
  cbn [p_cur p_sc p_ecn].
  repeat split; try assumption; try reflexivity.
  - rewrite app_length, Hla. cbn. lia.
  - rewrite app_nth2 by lia. replace (S i - length acc)%nat with 0%nat by lia. reflexivity.
  - destruct (Nat.eq_dec k (S i)) as [->|Hne].
    + rewrite app_nth2 by lia. replace (S i - length acc)%nat with 0%nat by lia. exact Hcur3.
    + rewrite app_nth1 by lia. specialize (HG3 k ltac:(lia) Hne). unfold G in HG3.
      replace (k <=? i)%nat with true in HG3 by (symmetry; apply Nat.leb_le; lia). exact HG3.
  - destruct (Nat.eq_dec k (S i)) as [->|Hne].
    + rewrite app_nth2 by lia. replace (S i - length acc)%nat with 0%nat by lia. exact Hlc3.
    + rewrite app_nth1 by lia. apply Hrows. lia.
  - intros k q Hk Hq. specialize (HG3 k ltac:(lia) ltac:(lia)). unfold G in HG3.
    replace (k <=? i)%nat with false in HG3 by (symmetry; apply Nat.leb_gt; lia).
    rewrite HG3 by exact Hq. unfold rget. rewrite nth_map_seq by exact Hq. reflexivity.
Qed.

Theorem py_wps_fill_refines mld mld_some zp1e zp2e :
  exists res, py_wps_fill idist f1 zr f2 zc B mld mld_some ms true pen zp1b zp1e (Z.of_nat (psi_2b u)) zp2e w = (res, true) /\
    (if mld_some && cltb mld (Fin (Z.abs (zr - zc))) then res = None
     else exists dtw, res = Some dtw /\ length dtw = (rows * n)%nat /\
          forall i j, (i <= r)%nat -> (j <= c)%nat ->
            aget dtw (Z.of_nat i * Z.of_nat n + Z.of_nat j) = mget (wps_code_matrix u s1 s2 B) i j).
Proof.
  unfold py_wps_fill. cbv zeta.
  destruct (mld_some && cltb mld (Fin (Z.abs (zr - zc)))); [exists None; split; reflexivity|].
  destruct wps_init_spec as (dtw0 & E0 & Hl0 & Hc0).
  destruct (fold_left (py_wps_fill_loop1 zn (zr + 1)) (zrange 0 (Z.of_nat (psi_2b u) + 1)) (amake (fun _ => Inf) ((zr + 1) * zn), true)) as [d1 o1].
  rewrite E0.
  assert (HR : WInv r (fold_left (py_wps_fill_loop3 idist B ms true pen w zc zn (zr + 1) zr zc zp1b zr f1 f2) (zrange 0 zr)
                         (dtw0, Z.of_nat (psi_2b u), true, 0))).
  { apply (fold_zrange_inv WInv).
    - unfold WInv. cbn [wrows]. repeat split; try assumption; try reflexivity.
      + replace k with 0%nat by lia. cbn [nth]. intros q Hq. rewrite Hc0 by (try exact Hq; lia).
        unfold cell0, wrow0, rget. rewrite nth_map_seq by exact Hq. cbn [Nat.eqb andb].
        destruct (q <=? psi_2b u)%nat eqn:El; cbn [orb]; [reflexivity|].
        destruct (q =? 0)%nat eqn:Eq; cbn [andb]; [|reflexivity].
        apply Nat.eqb_eq in Eq. subst q. cbn in El. discriminate El.
      + replace k with 0%nat by lia. cbn [nth]. unfold wrow0. rewrite map_length, seq_length. reflexivity.
      + intros k q Hk Hq. apply Hc0; [lia|exact Hq].
    - intros k s Hk Hs. apply wps_row_step; assumption. }
  destruct (fold_left (py_wps_fill_loop3 idist B ms true pen w zc zn (zr + 1) zr zc zp1b zr f1 f2) (zrange 0 zr)
              (dtw0, Z.of_nat (psi_2b u), true, 0)) as [[[dtw ec] ok] sc].
  unfold WInv in HR. unfold wps_code_matrix.
  destruct (wrows u s1 s2 B r) as [[[acc prev] sc'] ec']. cbn [fst].
  destruct HR as (Hlen & Hla & Hprev & Hrows & _ & -> & _ & _).
  exists (Some dtw). split; [reflexivity|]. exists dtw. split; [reflexivity|]. split; [exact Hlen|].
  intros i j Hi Hj. destruct (Hrows i Hi) as [Hri _]. rewrite Hri by lia. reflexivity.
Qed.
End Refine.

(* ------------------------------------------------------------------ the regenerated fill = specification matrix *)
Theorem py_wps_fill_spec (u : usettings) (s1 s2 : list point) (idist : Z -> Z -> cost) (f1 f2 : list Z) mld mld_some zp1e zp2e :
  1 <= eff_window u (length s1) (length s2) -> (1 <= length s1)%nat -> (1 <= length s2)%nat ->
  (psi_1b u <= length s1)%nat -> (psi_2b u <= length s2)%nat ->
  (forall i j, (i < length s1)%nat -> (j < length s2)%nat ->
     idist (Z.of_nat i) (Z.of_nat j) = Fin (pdist (u_inner u) (nth i s1 []) (nth j s2 []))) ->
  pen_ok u -> (psi_1b u < length s1 \/ psi_2e u < length s2)%nat ->
  exists res, py_wps_fill idist f1 (Z.of_nat (length s1)) f2 (Z.of_nat (length s2)) Inf mld mld_some (adj_max_step u) true
                (Fin (adj_penalty u)) (Z.of_nat (psi_1b u)) zp1e (Z.of_nat (psi_2b u)) zp2e (eff_window u (length s1) (length s2)) = (res, true) /\
    (if mld_some && cltb mld (Fin (Z.abs (Z.of_nat (length s1) - Z.of_nat (length s2)))) then res = None
     else exists dtw, res = Some dtw /\ length dtw = ((length s1 + 1) * (length s2 + 1))%nat /\
          forall i j, (i <= length s1)%nat -> (j <= length s2)%nat ->
            aget dtw (Z.of_nat i * Z.of_nat (length s2 + 1) + Z.of_nat j) = mget (wps_matrix u s1 s2) i j).
Proof.
  intros Hw Hr Hc Hp1 Hp2 Hd Hpen Hpsi.
  destruct (py_wps_fill_refines u s1 s2 Inf idist f1 f2 Hw Hr Hc Hp1 Hp2 Hd mld mld_some zp1e zp2e) as (res & E & H).
  exists res. split; [exact E|].
  destruct (mld_some && cltb mld (Fin (Z.abs (Z.of_nat (length s1) - Z.of_nat (length s2))))); [exact H|].
  destruct H as (dtw & -> & Hl & Hcells). exists dtw. split; [reflexivity|]. split; [exact Hl|].
  intros i j Hi Hj. rewrite Hcells by assumption. apply wps_code_matrix_exact; assumption.
Qed.
