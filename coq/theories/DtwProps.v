(* Algebraic properties of the DTW model: monotonicity of the DP in all of its
   inputs, non-negativity, transposition symmetry.  They yield C10 (identity,
   non-negativity, symmetry, option monotonicity) and are reused by C09/C03. *)
From Coq Require Import ZArith Bool List Lia.
From DV Require Import Prelude Cost Grid Dtw DtwSpec Band.
Import ListNotations.
Open Scope Z_scope.

(* ------------------------------------------------------------ cost lemmas *)
Lemma cmin_mono a a' b b' : cle a' a -> cle b' b -> cle (cmin a' b') (cmin a b).
Proof.
  intros Ha Hb. apply cmin_glb.
  - eapply cle_trans; [apply cmin_l|exact Ha].
  - eapply cle_trans; [apply cmin_r|exact Hb].
Qed.

Lemma cmin3_mono a a' b b' c c' : cle a' a -> cle b' b -> cle c' c -> cle (cmin3 a' b' c') (cmin3 a b c).
Proof. intros. unfold cmin3. apply cmin_mono; [apply cmin_mono|]; assumption. Qed.

Lemma cadd_mono a a' b b' : cle a' a -> cle b' b -> cle (cadd a' b') (cadd a b).
Proof. intros Ha Hb. eapply cle_trans; [apply cadd_mono_l; exact Ha|apply cadd_mono_r; exact Hb]. Qed.

Lemma cmin_assoc a b c : cmin (cmin a b) c = cmin a (cmin b c).
Proof.
  apply cle_antisym; repeat apply cmin_glb.
  - eapply cle_trans; [apply cmin_l|apply cmin_l].
  - eapply cle_trans; [apply cmin_l|apply cmin_r].
  - apply cmin_r.
  - apply cmin_l.
  - eapply cle_trans; [apply cmin_r|apply cmin_l].
  - eapply cle_trans; [apply cmin_r|apply cmin_r].
Qed.

Lemma cmin3_swap a b c : cmin3 a b c = cmin3 a c b.
Proof. unfold cmin3. rewrite !cmin_assoc. f_equal. apply cmin_comm. Qed.

Lemma cmin_nonneg a b : cle (Fin 0) a -> cle (Fin 0) b -> cle (Fin 0) (cmin a b).
Proof. apply cmin_glb. Qed.

Lemma cadd_nonneg a b : cle (Fin 0) a -> cle (Fin 0) b -> cle (Fin 0) (cadd a b).
Proof. intros. change (Fin 0) with (cadd (Fin 0) (Fin 0)). apply cadd_mono; assumption. Qed.

Lemma cmin_list_app l1 l2 : cmin_list (l1 ++ l2) = cmin (cmin_list l1) (cmin_list l2).
Proof.
  induction l1 as [|x t IH]; simpl; [rewrite cmin_inf_l; reflexivity|].
  rewrite IH. symmetry. apply cmin_assoc.
Qed.

Lemma cmin_list_mono_incl l1 l2 : incl l1 l2 -> cle (cmin_list l2) (cmin_list l1).
Proof.
  induction l1 as [|x t IH]; intros H; simpl; [apply cle_inf|].
  apply cmin_glb.
  - apply cmin_list_le. apply H. left. reflexivity.
  - apply IH. intros y Hy. apply H. right. exact Hy.
Qed.

Lemma cmin_list_pointwise {A} (f g : A -> cost) l :
  (forall x, In x l -> cle (f x) (g x)) -> cle (cmin_list (map f l)) (cmin_list (map g l)).
Proof.
  induction l as [|x t IH]; intros H; simpl; [apply cle_refl|].
  apply cmin_mono; [apply H; left; reflexivity|apply IH; intros; apply H; right; assumption].
Qed.

(* ------------------------------------------------------------ matrix lemmas *)
Lemma Mf_0 d pen p1b p2b j : Mf d pen p1b p2b 0 j = b0 p2b j.
Proof. reflexivity. Qed.
Lemma Mf_S_0 d pen p1b p2b i : Mf d pen p1b p2b (S i) 0 = b1 p1b (S i).
Proof. reflexivity. Qed.

Lemma code_cell_mono pen pen' dv dv' a a' b b' c c' :
  pen' <= pen -> cle dv' dv -> cle a' a -> cle b' b -> cle c' c ->
  cle (code_cell pen' dv' a' b' c') (code_cell pen dv a b c).
Proof.
  intros Hp Hd Ha Hb Hc. unfold code_cell.
  assert (HP : cle (Fin pen') (Fin pen)) by (apply cle_fin; exact Hp).
  apply cadd_mono; [exact Hd|]. apply cmin3_mono; [exact Ha| |]; apply cadd_mono; assumption.
Qed.

Lemma b0_mono p p' j : (p <= p')%nat -> cle (b0 p' j) (b0 p j).
Proof.
  intros H. unfold b0. destruct (Nat.leb_spec j p); destruct (Nat.leb_spec j p'); try apply cle_refl; try apply cle_inf. lia.
Qed.
Lemma b1_mono p p' j : (p <= p')%nat -> cle (b1 p' j) (b1 p j).
Proof. apply b0_mono. Qed.

(* The DP is monotone in the cell costs, the penalty and the begin relaxation. *)
Theorem Mf_mono d d' pen pen' p1b p1b' p2b p2b' :
  (forall i j, cle (d' i j) (d i j)) -> pen' <= pen -> (p1b <= p1b')%nat -> (p2b <= p2b')%nat ->
  forall i j, cle (Mf d' pen' p1b' p2b' i j) (Mf d pen p1b p2b i j).
Proof.
  intros Hd Hp H1 H2. induction i as [|i IHi]; intros j.
  - rewrite !Mf_0. apply b0_mono. exact H2.
  - induction j as [|j IHj].
    + rewrite !Mf_S_0. apply b1_mono. exact H1.
    + rewrite !Mf_S_S. apply code_cell_mono; auto.
Qed.

Theorem Mf_nonneg d pen p1b p2b :
  (forall i j, cle (Fin 0) (d i j)) -> 0 <= pen -> forall i j, cle (Fin 0) (Mf d pen p1b p2b i j).
Proof.
  intros Hd Hp. induction i as [|i IHi]; intros j.
  - rewrite Mf_0. unfold b0. destruct (j <=? p2b)%nat; [apply cle_refl|apply cle_inf].
  - induction j as [|j IHj].
    + rewrite Mf_S_0. unfold b1. destruct (S i <=? p1b)%nat; [apply cle_refl|apply cle_inf].
    + rewrite Mf_S_S. unfold code_cell, cmin3. apply cadd_nonneg; [apply Hd|].
      assert (HP : cle (Fin 0) (Fin pen)) by (apply cle_fin; exact Hp).
      repeat apply cmin_nonneg; auto; apply cadd_nonneg; auto.
Qed.

(* Transposition: swapping the roles of the two series (and of their psi's). *)
Theorem Mf_transpose d d' pen p1b p2b r c :
  (forall i j, (i < r)%nat -> (j < c)%nat -> d' j i = d i j) ->
  forall i j, (i <= r)%nat -> (j <= c)%nat -> Mf d' pen p2b p1b j i = Mf d pen p1b p2b i j.
Proof.
  intros Hd. induction i as [|i IHi]; intros j Hi Hj.
  - destruct j as [|j]; [reflexivity|]. rewrite Mf_S_0, Mf_0. reflexivity.
  - induction j as [|j IHj].
    + rewrite Mf_S_0, Mf_0. reflexivity.
    + rewrite !Mf_S_S. rewrite Hd by lia.
      rewrite (IHi j) by lia. rewrite (IHi (S j)) by lia. rewrite IHj by lia.
      unfold code_cell. f_equal. apply cmin3_swap.
Qed.

(* ------------------------------------------------------------ symmetry of the DTW value *)
Definition swap_psi (u : usettings) : usettings :=
  {| u_window := u_window u; u_penalty := u_penalty u; u_max_step := u_max_step u;
     u_max_length_diff := u_max_length_diff u; u_psi := (snd (u_psi u), fst (u_psi u)); u_inner := u_inner u |}.

Lemma in_band_sym r c w i j : (i < r)%nat -> (j < c)%nat -> in_band c r w j i = in_band r c w i j.
Proof.
  intros Hi Hj. apply eq_true_iff_eq. rewrite !in_band_iff. symmetry. apply band_sym; lia.
Qed.

Lemma cell_swap u s1 s2 i j : (i < length s1)%nat -> (j < length s2)%nat ->
  cell (swap_psi u) s2 s1 j i = cell u s1 s2 i j.
Proof.
  intros Hi Hj. unfold cell, sw, sr, sc, eff_window. cbn [u_window swap_psi u_inner].
  replace (match u_window u with Some w => w | None => Z.max (Z.of_nat (length s2)) (Z.of_nat (length s1)) end)
    with (match u_window u with Some w => w | None => Z.max (Z.of_nat (length s1)) (Z.of_nat (length s2)) end)
    by (destruct (u_window u); [reflexivity|apply Z.max_comm]).
  rewrite in_band_sym by assumption.
  rewrite (pdist_sym (u_inner u) (nth j s2 []) (nth i s1 [])). reflexivity.
Qed.

Theorem dtw_value_sym u s1 s2 : dtw_value (swap_psi u) s2 s1 = dtw_value u s1 s2.
Proof.
  rewrite !dtw_value_Mfun. unfold end_cands, Mfun.
  rewrite !map_app, !map_map, !cmin_list_app. cbn [fst snd].
  change (psi_1e (swap_psi u)) with (psi_2e u). change (psi_2e (swap_psi u)) with (psi_1e u).
  change (psi_1b (swap_psi u)) with (psi_2b u). change (psi_2b (swap_psi u)) with (psi_1b u).
  change (adj_penalty (swap_psi u)) with (adj_penalty u).
  unfold sr, sc. rewrite cmin_comm. f_equal.
  - f_equal. apply map_ext_in. intros k Hk.
    apply Mf_transpose with (r := length s1) (c := length s2); [|lia|lia].
    intros i j Hi Hj. apply cell_swap; assumption.
  - f_equal. apply map_ext_in. intros k Hk.
    apply Mf_transpose with (r := length s1) (c := length s2); [|lia|lia].
    intros i j Hi Hj. apply cell_swap; assumption.
Qed.

Theorem dtw_model_sym u s1 s2 : dtw_model (swap_psi u) s2 s1 = dtw_model u s1 s2.
Proof.
  unfold dtw_model. rewrite dtw_value_sym.
  replace (too_long (swap_psi u) s2 s1) with (too_long u s1 s2); [reflexivity|].
  unfold too_long, sr, sc. cbn [u_max_length_diff swap_psi].
  destruct (u_max_length_diff u); [|reflexivity]. f_equal. lia.
Qed.

(* ------------------------------------------------------------ non-negativity *)
Lemma cell_nonneg u s1 s2 i j : cle (Fin 0) (cell u s1 s2 i j).
Proof.
  unfold cell. destruct (in_band _ _ _ _ _); [|apply cle_inf].
  cbv zeta. destruct (cleb _ _); [|apply cle_inf]. apply cle_fin. apply pdist_nonneg.
Qed.

Definition pen_ok (u : usettings) : Prop := match u_penalty u with None => True | Some p => 0 <= p end.

Lemma adj_penalty_nonneg u : pen_ok u -> 0 <= adj_penalty u.
Proof.
  unfold pen_ok, adj_penalty. destruct (u_penalty u) as [p|]; [|lia]. intros H.
  destruct (p =? 0); [lia|]. destruct (u_inner u); simpl; nia.
Qed.

Theorem dtw_model_nonneg u s1 s2 : pen_ok u -> cle (Fin 0) (dtw_model u s1 s2).
Proof.
  intros Hp. unfold dtw_model. destruct (too_long u s1 s2); [apply cle_inf|].
  rewrite dtw_value_Mfun.
  assert (G : forall l, cle (Fin 0) (cmin_list (map (fun ij => Mfun u s1 s2 (fst ij) (snd ij)) l))).
  { induction l as [|x t IH]; simpl; [apply cle_inf|]. apply cmin_nonneg; [|exact IH].
    apply Mf_nonneg; [intros; apply cell_nonneg|apply adj_penalty_nonneg; exact Hp]. }
  apply G.
Qed.

(* ------------------------------------------------------------ option monotonicity *)
(* u' relaxes u: wider window, smaller penalty, larger max_step, more psi *)
Definition relaxes (u' u : usettings) (r c : nat) : Prop :=
  u_inner u' = u_inner u /\
  eff_window u r c <= eff_window u' r c /\
  adj_penalty u' <= adj_penalty u /\
  cle (adj_max_step u) (adj_max_step u') /\
  (psi_1b u <= psi_1b u')%nat /\ (psi_1e u <= psi_1e u')%nat /\
  (psi_2b u <= psi_2b u')%nat /\ (psi_2e u <= psi_2e u')%nat.

Lemma in_band_mono r c w w' i j : w <= w' -> in_band r c w i j = true -> in_band r c w' i j = true.
Proof. intros Hw. rewrite !in_band_iff. apply band_mono_w. exact Hw. Qed.

Lemma cell_relax u u' s1 s2 i j : relaxes u' u (length s1) (length s2) ->
  cle (cell u' s1 s2 i j) (cell u s1 s2 i j).
Proof.
  intros (Hin & Hw & _ & Hms & _). unfold cell, sw, sr, sc. rewrite Hin.
  destruct (in_band (length s1) (length s2) (eff_window u (length s1) (length s2)) i j) eqn:E; [|apply cle_inf].
  rewrite (in_band_mono _ _ _ _ _ _ Hw E). cbv zeta.
  destruct (cleb (Fin (pdist (u_inner u) (nth i s1 []) (nth j s2 []))) (adj_max_step u)) eqn:E2; [|apply cle_inf].
  assert (H : cle (Fin (pdist (u_inner u) (nth i s1 []) (nth j s2 []))) (adj_max_step u')) by (eapply cle_trans; [exact E2|exact Hms]).
  unfold cle in H. rewrite H. apply cle_refl.
Qed.

Lemma seq_incl a n m : (n <= m)%nat -> incl (seq a n) (seq a m).
Proof. intros H x. rewrite !in_seq. lia. Qed.

Theorem dtw_value_relax u u' s1 s2 : relaxes u' u (length s1) (length s2) ->
  cle (dtw_value u' s1 s2) (dtw_value u s1 s2).
Proof.
  intros Hr. pose proof Hr as (Hin & Hw & Hp & Hms & H1b & H1e & H2b & H2e).
  rewrite !dtw_value_Mfun.
  eapply cle_trans.
  2:{ apply cmin_list_pointwise with (f := fun ij => Mfun u' s1 s2 (fst ij) (snd ij)).
      intros x _. unfold Mfun. apply Mf_mono; auto. intros. apply cell_relax. exact Hr. }
  apply cmin_list_mono_incl. apply incl_map.
  unfold end_cands. intros x. rewrite !in_app_iff, !in_map_iff.
  intros [[k [Hk Hin']]|[k [Hk Hin']]]; [left|right]; exists k; (split; [exact Hk|]);
    revert Hin'; apply seq_incl; lia.
Qed.

(* ------------------------------------------------------------ identity *)
Definition max_step_ok (u : usettings) : Prop := cle (Fin 0) (adj_max_step u).

Lemma Mfun_diag_zero u s : pen_ok u -> max_step_ok u -> 1 <= eff_window u (length s) (length s) ->
  forall i, (i <= length s)%nat -> Mfun u s s i i = Fin 0.
Proof.
  intros Hp Hm Hw. induction i as [|i IH]; intros Hi; [reflexivity|].
  unfold Mfun in *. rewrite Mf_S_S. rewrite IH by lia.
  assert (Hc : cell u s s i i = Fin 0).
  { unfold cell, sw, sr, sc.
    assert (Hb : in_band (length s) (length s) (eff_window u (length s) (length s)) i i = true).
    { apply in_band_iff. apply band_diag_equal; lia. }
    rewrite Hb. cbv zeta. rewrite pdist_refl. unfold max_step_ok, cle in Hm. rewrite Hm. reflexivity. }
  rewrite Hc. unfold code_cell, cmin3. rewrite cadd_0_l.
  apply cle_antisym.
  - eapply cle_trans; [apply cmin_l|apply cmin_l].
  - assert (HP : cle (Fin 0) (Fin (adj_penalty u))) by (apply cle_fin; apply adj_penalty_nonneg; exact Hp).
    assert (HN : forall a b, cle (Fin 0) (Mf (cell u s s) (adj_penalty u) (psi_1b u) (psi_2b u) a b)).
    { intros. apply Mf_nonneg; [intros; apply cell_nonneg|apply adj_penalty_nonneg; exact Hp]. }
    repeat apply cmin_nonneg; [apply cle_refl| |]; apply cadd_nonneg; auto.
Qed.

Theorem dtw_model_identity u s : pen_ok u -> max_step_ok u -> 1 <= eff_window u (length s) (length s) ->
  (match u_max_length_diff u with Some m => 0 <= m | None => True end) ->
  dtw_model u s s = Fin 0.
Proof.
  intros Hp Hm Hw Hl. unfold dtw_model.
  assert (Ht : too_long u s s = false).
  { unfold too_long, sr, sc. destruct (u_max_length_diff u) as [m|]; [|reflexivity].
    rewrite Z.sub_diag. simpl. apply Z.ltb_ge. exact Hl. }
  rewrite Ht. apply cle_antisym; [|apply (dtw_model_nonneg u s s) in Hp; unfold dtw_model in Hp; rewrite Ht in Hp; exact Hp].
  rewrite dtw_value_Mfun.
  rewrite <- (Mfun_diag_zero u s Hp Hm Hw (length s) (le_n _)).
  apply cmin_list_le. apply in_map_iff. exists (length s, length s). split; [reflexivity|].
  unfold end_cands, sr, sc. apply in_app_iff. left. apply in_map_iff. exists 0%nat.
  split; [f_equal; lia|]. apply in_seq. lia.
Qed.
