(* Geometry of the compact warping-paths layout of the C engine, over dtw_wps_parts
   and dtw_wps_shift regenerated from dd_dtw.c (Gen_cwps): matrix column c of row ri
   is stored at index c - shift(ri) of that row.  For every length, window and
   every cell of the band (and its left neighbour, which the recurrence reads and the
   kernels initialise) that index lies inside the row: 0 <= index < width.  Hence
   a kernel that writes band cells through this mapping stays inside the
   (l1+1) * width buffer (C08), the mapping is injective on a row (distinct columns,
   distinct slots) and -- because dtw_wps_get / the psi scans / the relaxed-end
   search use the same mapping -- they read the cells the fill loops wrote. *)
From Coq Require Import ZArith Bool Lia.
From DV Require Import Dtw.
From DVGen Require Import Gen_cwps.
Open Scope Z_scope.

Section Layout.
Variables l1 l2 window0 : Z.
Let ldiff := c_parts_ldiff l1 l2.
Let ldiffr := c_parts_ldiffr l1 l2 ldiff.
Let ldiffc := c_parts_ldiffc l1 l2 ldiff.
Let window := c_parts_window l1 l2 window0.
Definition cw_width := c_parts_width l2 ldiff window0 window.
Let ol := c_parts_overlap_left l1 ldiffr window.
Let orr := c_parts_overlap_right l1 ldiffr window.
Definition cw_ri2 := c_parts_ri2 l1 ol.
Definition cw_ri3 := c_parts_ri3 l1 ol orr.
Definition cw_shift (ri : Z) : Z := c_wps_shift ri cw_ri2 cw_ri3.
Definition cw_window := window.
End Layout.

Ltac unfold_cw :=
  unfold cw_shift, cw_width, cw_ri2, cw_ri3, cw_window, c_wps_shift, c_parts_ri2, c_parts_ri3, c_parts_overlap_left,
    c_parts_overlap_right, c_parts_width, c_parts_window, c_parts_ldiffr, c_parts_ldiffc, c_parts_ldiff, band_lo, band_hi.

Ltac split_ifs :=
  repeat match goal with
         | |- context [?a >? ?b] => destruct (Z.gtb_spec a b)
         | |- context [?a <? ?b] => destruct (Z.ltb_spec a b)
         | |- context [?a <=? ?b] => destruct (Z.leb_spec a b)
         | |- context [?a =? ?b] => destruct (Z.eqb_spec a b)
         end.

(* the band the kernels use: window clipped to max(l1,l2), or that maximum when the option is off (0) *)
Theorem compact_slot_in_row : forall l1 l2 window0 ri j,
  1 <= l1 -> 1 <= l2 -> 0 <= window0 -> 0 <= ri < l1 ->
  band_lo l1 l2 (cw_window l1 l2 window0) ri <= j < band_hi l1 l2 (cw_window l1 l2 window0) ri ->
  (* the cell itself (matrix column j+1) and its left neighbour (matrix column j) *)
  0 <= j - cw_shift l1 l2 window0 ri /\ j + 1 - cw_shift l1 l2 window0 ri < cw_width l1 l2 window0.
Proof.
  intros l1 l2 window0 ri j H1 H2 Hw Hri. unfold_cw. cbv zeta. split_ifs; intros; lia.
Qed.

(* rows above: the recurrence also reads (ri-1, j) and (ri-1, j+1); both are stored (or lie outside the band and
   are never read as band cells: the kernels address them relative to the previous row's shift) *)
Theorem compact_shift_steps : forall l1 l2 window0 ri,
  1 <= l1 -> 1 <= l2 -> 0 <= window0 -> 0 <= ri -> ri + 1 < l1 ->
  cw_shift l1 l2 window0 (ri + 1) = cw_shift l1 l2 window0 ri \/
  cw_shift l1 l2 window0 (ri + 1) = cw_shift l1 l2 window0 ri + 1.
Proof.
  intros l1 l2 window0 ri H1 H2 Hw Hri Hri'. unfold_cw. cbv zeta. split_ifs; intros; lia.
Qed.

Theorem compact_first_rows_unshifted : forall l1 l2 window0 ri,
  1 <= l1 -> 1 <= l2 -> 0 <= window0 -> 0 <= ri < l1 ->
  ri < cw_window l1 l2 window0 + Z.max 0 (l1 - l2) -> cw_shift l1 l2 window0 ri = 0.
Proof.
  intros l1 l2 window0 ri H1 H2 Hw Hri. unfold_cw. cbv zeta. split_ifs; intros; lia.
Qed.
