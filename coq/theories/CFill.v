(* The loops that FILL the compact warping-paths array address it through the layout.

   tools/translate_c.py regenerates, for each of the four fill kernels
   (dtw_warping_paths_ndim, _ndim_euclidean, _affinity_ndim, _affinity_ndim_euclidean) and each of
   their four row regions A, B, C, D: the initial values of min_ci / max_ci / wpsi_start, their
   per-row increments, the slot the first column of a row is written to, the offsets at which the
   recurrence reads the previous row, and the shape of every other store in the row loop
   (Gen_cfill.v; anything it does not recognise is an error).  Proved for every kernel and region,
   every length and window and every row of the region:

     - the cell loop runs over exactly the band of that row (band_lo <= ci < band_hi);
     - column ci is written to slot ci + 1 - shift(ri), the layout of CWps.v, hence inside the row;
     - the "diagonal" and "up" reads address columns ci - 1 and ci of the PREVIOUS row under that
       row's shift, and both indices lie inside the previous row;
     - the head fill of region D stays inside the row.

   With the (l1+1) * width allocation (Mem.v) no store or load of the fill loops leaves the
   buffer, for any input; the skip loops that precede the cell loop write slots of columns
   below their bound, so they stay inside the row when that bound is at most band_hi (see
   skip_in_row). *)
From Coq Require Import ZArith Bool Lia String List.
From DV Require Import Dtw CWps.
From DVGen Require Import Gen_cwps Gen_cfill.
Import ListNotations.
Open Scope Z_scope.

Section Fill.
Variables l1 l2 window0 : Z.
Local Notation ldiff := (c_parts_ldiff l1 l2).
Local Notation ldiffr := (c_parts_ldiffr l1 l2 ldiff).
Local Notation ldiffc := (c_parts_ldiffc l1 l2 ldiff).
Local Notation window := (c_parts_window l1 l2 window0).
Local Notation ol := (c_parts_overlap_left l1 ldiffr window).
Local Notation orr := (c_parts_overlap_right l1 ldiffr window).
Local Notation ri1 := (c_parts_ri1 l1 ol orr).
Local Notation ri2 := (c_parts_ri2 l1 ol).
Local Notation ri3 := (c_parts_ri3 l1 ol orr).

(* for (ri=0; ri<p.ri1 ..), (ri=p.ri1; ri<p.ri2 ..), (ri=p.ri2; ri<p.ri3 ..), (ri=p.ri3; ri<l1 ..):
   the translator checks these four headers, in this order *)
Definition region_lo (R : region_id) : Z := match R with RA => 0 | RB => ri1 | RC => ri2 | RD => ri3 end.
Definition region_hi (R : region_id) : Z := match R with RA => ri1 | RB => ri2 | RC => ri3 | RD => l1 end.

Definition row_min (r : fill_region) (ri : Z) : Z :=
  fr_min0 r l2 window ldiff ldiffr ldiffc ri2 ri3 + fr_dmin r * (ri - region_lo (fr_region r)).
Definition row_hi (r : fill_region) (ri : Z) : Z :=
  fr_max0 r l2 window ldiff ldiffr ldiffc ri2 ri3 + fr_dmax r * (ri - region_lo (fr_region r)).
Definition row_wpsi (r : fill_region) (ri : Z) : Z :=
  fr_wpsi0 r l2 window ldiff ldiffr ldiffc ri2 ri3 + fr_dwpsi r * (ri - region_lo (fr_region r)).
(* ci and wpsi advance together from (min_ci, wpsi start) *)
Definition slot (r : fill_region) (ri ci : Z) : Z := row_wpsi r ri + (ci - row_min r ri).

Definition shift (ri : Z) : Z := cw_shift l1 l2 window0 ri.
Definition width : Z := cw_width l1 l2 window0.
Definition blo (ri : Z) : Z := band_lo l1 l2 (cw_window l1 l2 window0) ri.
Definition bhi (ri : Z) : Z := band_hi l1 l2 (cw_window l1 l2 window0) ri.

Definition region_ok (r : fill_region) : Prop :=
  forall ri, region_lo (fr_region r) <= ri < region_hi (fr_region r) -> 0 <= ri < l1 ->
    row_min r ri = blo ri /\ row_hi r ri = bhi ri /\
    (forall ci, slot r ri ci = ci + 1 - shift ri) /\
    fr_offdiag r = shift ri - shift (ri - 1) - 1 /\ fr_offup r = fr_offdiag r + 1 /\
    (forall ci, blo ri <= ci < bhi ri ->
       0 < slot r ri ci < width /\                                   (* the store, and its left neighbour slot - 1 >= 0 *)
       0 <= slot r ri ci + fr_offdiag r /\ slot r ri ci + fr_offup r < width) /\   (* previous-row reads *)
    (fr_head_fill r = true -> 0 <= row_wpsi r ri <= width).
End Fill.

(* ------------------------------------------------------------ the geometry in min/max form *)
Lemma ldiff_norm l1 l2 : c_parts_ldiff l1 l2 = Z.max (l1 - l2) (l2 - l1).
Proof. unfold c_parts_ldiff. destruct (Z.gtb_spec l1 l2); lia. Qed.
Lemma ldiffr_norm l1 l2 : c_parts_ldiffr l1 l2 (c_parts_ldiff l1 l2) = Z.max 0 (l1 - l2).
Proof. unfold c_parts_ldiffr, c_parts_ldiff. destruct (Z.gtb_spec l1 l2); lia. Qed.
Lemma ldiffc_norm l1 l2 : c_parts_ldiffc l1 l2 (c_parts_ldiff l1 l2) = Z.max 0 (l2 - l1).
Proof. unfold c_parts_ldiffc, c_parts_ldiff. destruct (Z.gtb_spec l1 l2); lia. Qed.
Lemma overlap_right_norm l1 dr w : c_parts_overlap_right l1 dr w = Z.max 0 (l1 + 1 - w - dr).
Proof. unfold c_parts_overlap_right. destruct (Z.leb_spec (w + dr) l1); lia. Qed.
Lemma shift_norm ri r2 r3 : r2 <= r3 -> c_wps_shift ri r2 r3 = Z.min (Z.max 0 (1 + ri - r2)) (r3 - r2).
Proof. intros H. unfold c_wps_shift. destruct (Z.ltb_spec ri r2); [lia|]. destruct (Z.ltb_spec ri r3); [lia|]. destruct (Z.eqb_spec r2 r3); lia. Qed.
Lemma window_norm l1 l2 w0 : 0 <= w0 -> 1 <= l1 -> 1 <= l2 ->
  (w0 = 0 /\ c_parts_window l1 l2 w0 = Z.max l1 l2 /\ forall ld w, c_parts_width l2 ld w0 w = l2 + 1) \/
  (0 < w0 /\ c_parts_window l1 l2 w0 = Z.min w0 (Z.max l1 l2) /\ forall ld w, c_parts_width l2 ld w0 w = Z.min (l2 + 1) (ld + 2 * w + 1)).
Proof.
  intros. unfold c_parts_window, c_parts_width. destruct (Z.eqb_spec w0 0); [left|right]; repeat split; intros; lia.
Qed.

Ltac fill_setup l1 l2 window0 :=
  unfold region_ok, slot, row_min, row_hi, row_wpsi, shift, width, blo, bhi, region_lo, region_hi;
  cbn [fr_region fr_min0 fr_max0 fr_wpsi0 fr_dmin fr_dmax fr_dwpsi fr_offdiag fr_offup fr_head_fill];
  unfold cw_shift, cw_width, cw_ri2, cw_ri3, cw_window, band_lo, band_hi;
  rewrite ?ldiffr_norm, ?ldiffc_norm, ?overlap_right_norm, ?ldiff_norm;
  unfold c_parts_ri1, c_parts_ri2, c_parts_ri3, c_parts_overlap_left.

(* the four regions as they are expected; every kernel's regenerated region is one of them *)
Definition canon (R : region_id) : fill_region :=
  match R with
  | RA => {| fr_kernel := ""; fr_region := RA;
             fr_min0 := fun l2 window ldiff ldiffr ldiffc ri2 ri3 => 0;
             fr_max0 := fun l2 window ldiff ldiffr ldiffc ri2 ri3 => (window + ldiffc);
             fr_wpsi0 := fun l2 window ldiff ldiffr ldiffc ri2 ri3 => 1;
             fr_dmin := 0; fr_dmax := 1; fr_dwpsi := 0; fr_offdiag := (-1); fr_offup := 0;
             fr_head_fill := false; fr_row0_store := false; fr_skip := ""; fr_recurrence := "" |}
  | RB => {| fr_kernel := ""; fr_region := RB;
             fr_min0 := fun l2 window ldiff ldiffr ldiffc ri2 ri3 => 0;
             fr_max0 := fun l2 window ldiff ldiffr ldiffc ri2 ri3 => l2;
             fr_wpsi0 := fun l2 window ldiff ldiffr ldiffc ri2 ri3 => 1;
             fr_dmin := 0; fr_dmax := 0; fr_dwpsi := 0; fr_offdiag := (-1); fr_offup := 0;
             fr_head_fill := false; fr_row0_store := false; fr_skip := ""; fr_recurrence := "" |}
  | RC => {| fr_kernel := ""; fr_region := RC;
             fr_min0 := fun l2 window ldiff ldiffr ldiffc ri2 ri3 => 1;
             fr_max0 := fun l2 window ldiff ldiffr ldiffc ri2 ri3 => (((1 + (2 * window)) - 1) + ldiff);
             fr_wpsi0 := fun l2 window ldiff ldiffr ldiffc ri2 ri3 => 1;
             fr_dmin := 1; fr_dmax := 1; fr_dwpsi := 0; fr_offdiag := 0; fr_offup := 1;
             fr_head_fill := false; fr_row0_store := true; fr_skip := ""; fr_recurrence := "" |}
  | RD => {| fr_kernel := ""; fr_region := RD;
             fr_min0 := fun l2 window ldiff ldiffr ldiffc ri2 ri3 =>
               (if ri2 =? ri3 then (Z.max 0 (((ri3 + 1) - window) - ldiffr)) else ((1 + ri3) - ri2));
             fr_max0 := fun l2 window ldiff ldiffr ldiffc ri2 ri3 => l2;
             fr_wpsi0 := fun l2 window ldiff ldiffr ldiffc ri2 ri3 =>
               (if ri2 =? ri3 then ((Z.max 0 (((ri3 + 1) - window) - ldiffr)) + 1) else 2);
             fr_dmin := 1; fr_dmax := 0; fr_dwpsi := 1; fr_offdiag := (-1); fr_offup := 0;
             fr_head_fill := true; fr_row0_store := false; fr_skip := ""; fr_recurrence := "" |}
  end.

(* region_ok does not look at the kernel name and the skip bound *)
Definition geometry (r : fill_region) :=
  (fr_region r, fr_min0 r, fr_max0 r, fr_wpsi0 r, (fr_dmin r, fr_dmax r, fr_dwpsi r), (fr_offdiag r, fr_offup r), fr_head_fill r, fr_row0_store r).

Lemma region_ok_geometry l1 l2 window0 r c : geometry r = geometry c -> region_ok l1 l2 window0 c -> region_ok l1 l2 window0 r.
Proof.
  unfold geometry. intros E. inversion E as [[E1 E2 E3 E4 E5 E6 E7 E8 E9 E10 E11]].
  unfold region_ok, slot, row_min, row_hi, row_wpsi. rewrite E1, E2, E3, E4, E5, E6, E7, E8, E9, E10. exact (fun H => H).
Qed.

Ltac canon_tac l1 l2 window0 Ww Wd :=
  cbv [canon]; fill_setup l1 l2 window0; rewrite ?Wd; rewrite ?Ww; intros ri Hreg Hri;
  rewrite !shift_norm by lia;
  repeat match goal with |- context [?a =? ?b] => destruct (Z.eqb_spec a b) end;
  repeat split; intros; try discriminate; lia.

Lemma canon_ok l1 l2 window0 : 1 <= l1 -> 1 <= l2 -> 0 <= window0 -> forall R, region_ok l1 l2 window0 (canon R).
Proof.
  intros H1 H2 Hw R.
  destruct (window_norm l1 l2 window0 Hw H1 H2) as [(W0 & Ww & Wd)|(W0 & Ww & Wd)]; destruct R.
  - canon_tac l1 l2 window0 Ww Wd.
  - canon_tac l1 l2 window0 Ww Wd.
  - canon_tac l1 l2 window0 Ww Wd.
  - canon_tac l1 l2 window0 Ww Wd.
  - canon_tac l1 l2 window0 Ww Wd.
  - canon_tac l1 l2 window0 Ww Wd.
  - canon_tac l1 l2 window0 Ww Wd.
  - canon_tac l1 l2 window0 Ww Wd.
Qed.

Theorem fill_regions_follow_the_layout : forall l1 l2 window0, 1 <= l1 -> 1 <= l2 -> 0 <= window0 ->
  forall r, In r fill_regions -> region_ok l1 l2 window0 r.
Proof.
  intros l1 l2 window0 H1 H2 Hw r Hin.
  apply region_ok_geometry with (c := canon (fr_region r)); [|apply canon_ok; assumption].
  unfold fill_regions in Hin.
  repeat (destruct Hin as [<-|Hin]; [reflexivity|]). destruct Hin.
Qed.

(* a skip loop `for (; ci<S; ci++) { wps[ri_width + wpsi] = INF; wpsi++; }` before the cell loop writes the slots of
   the columns min_ci <= ci < S: inside the row whenever S does not exceed the bound of the cell loop *)
Theorem skip_in_row : forall l1 l2 window0, 1 <= l1 -> 1 <= l2 -> 0 <= window0 ->
  forall r, In r fill_regions -> forall ri S ci,
  region_lo l1 l2 window0 (fr_region r) <= ri < region_hi l1 l2 window0 (fr_region r) -> 0 <= ri < l1 ->
  S <= row_hi l1 l2 window0 r ri -> row_min l1 l2 window0 r ri <= ci < S ->
  0 < slot l1 l2 window0 r ri ci < width l1 l2 window0.
Proof.
  intros l1 l2 window0 H1 H2 Hw r Hin ri S ci Hreg Hri HS Hci.
  destruct (fill_regions_follow_the_layout l1 l2 window0 H1 H2 Hw r Hin ri Hreg Hri) as (Emin & Ehi & _ & _ & _ & Hcell & _).
  apply Hcell. lia.
Qed.

(* the pruning bound sc only takes the values 0 and ci + 1 with ci below the bound of an earlier row's cell loop
   (checked by the translator); the bound never decreases from row to row: sc <= band_hi of the current row *)
Theorem cell_loop_bound_monotone : forall l1 l2 w ri, 0 <= ri -> band_hi l1 l2 w ri <= band_hi l1 l2 w (ri + 1).
Proof. intros. unfold band_hi. lia. Qed.

(* every skip loop is bounded: by the pruning bound sc (assigned only 0 or ci + 1 inside a cell loop, hence at most the
   bound of an earlier row's cell loop, which never exceeds the current one), or by min(ri, bound of the cell loop) *)
Theorem skip_loops_are_bounded : forall r, In r fill_regions -> fr_skip r = "sc"%string \/ fr_skip r = "ri&bound"%string.
Proof.
  assert (H : forallb (fun r => String.eqb (fr_skip r) "sc" || String.eqb (fr_skip r) "ri&bound") fill_regions = true)
    by (vm_compute; reflexivity).
  intros r Hr. rewrite forallb_forall in H. specialize (H r Hr). apply orb_true_iff in H.
  destruct H as [H|H]; apply String.eqb_eq in H; auto.
Qed.

Theorem sc_is_zero_or_the_next_column : forall k l x, In (k, l) sc_assignments -> In x l -> x = "0"%string \/ x = "ci+1"%string.
Proof.
  assert (H : forallb (fun kl => forallb (fun x => String.eqb x "0" || String.eqb x "ci+1") (snd kl)) sc_assignments = true)
    by (vm_compute; reflexivity).
  intros k l x Hk Hx. rewrite forallb_forall in H. specialize (H (k, l) Hk). cbn [snd] in H.
  rewrite forallb_forall in H. specialize (H x Hx). apply orb_true_iff in H.
  destruct H as [H|H]; apply String.eqb_eq in H; auto.
Qed.

Theorem sixteen_regions : length fill_regions = 16%nat.
Proof. vm_compute. reflexivity. Qed.

(* the recurrence as the kernels write it: the distance kernels store d + MIN3(left + penalty, diagonal, up + penalty),
   the affinity kernels take MAX3(left - penalty, diagonal, up - penalty) -- with the parts' penalty (p.penalty) *)
Theorem recurrence_texts : forall r, In r fill_regions ->
  fr_recurrence r = "MIN3:W+p.penalty,W,W+p.penalty;store=d+MIN3"%string \/
  fr_recurrence r = "MAX3:W-p.penalty,W,W-p.penalty;store=other"%string.
Proof.
  assert (H : forallb (fun r => String.eqb (fr_recurrence r) "MIN3:W+p.penalty,W,W+p.penalty;store=d+MIN3"
                               || String.eqb (fr_recurrence r) "MAX3:W-p.penalty,W,W-p.penalty;store=other") fill_regions = true)
    by (vm_compute; reflexivity).
  intros r Hr. rewrite forallb_forall in H. specialize (H r Hr). apply orb_true_iff in H.
  destruct H as [H|H]; apply String.eqb_eq in H; auto.
Qed.

Theorem distance_kernels_use_min3 : forall r, In r fill_regions ->
  (fr_kernel r = "dtw_warping_paths_ndim" \/ fr_kernel r = "dtw_warping_paths_ndim_euclidean")%string ->
  fr_recurrence r = "MIN3:W+p.penalty,W,W+p.penalty;store=d+MIN3"%string.
Proof.
  assert (H : forallb (fun r => negb (String.eqb (fr_kernel r) "dtw_warping_paths_ndim" || String.eqb (fr_kernel r) "dtw_warping_paths_ndim_euclidean")
                               || String.eqb (fr_recurrence r) "MIN3:W+p.penalty,W,W+p.penalty;store=d+MIN3") fill_regions = true)
    by (vm_compute; reflexivity).
  intros r Hr Hk. rewrite forallb_forall in H. specialize (H r Hr). apply orb_true_iff in H. destruct H as [H|H].
  - apply negb_true_iff, orb_false_iff in H. destruct H as [Ha Hb]. apply String.eqb_neq in Ha, Hb. destruct Hk; contradiction.
  - apply String.eqb_eq. exact H.
Qed.
