(* dtw.warping_paths as written (PyWps.wps_code_model) against the specification:
   for every bound B, every cell of the computed matrix is Q-related to the cell of
   the specification matrix (equal, or both above the bound), and the returned value
   is the specification value cut at the bound.  With B = Inf (no max_dist, no
   pruning) the computed matrix IS DtwSpec.wps_matrix, cell by cell. *)
From Coq Require Import ZArith Bool List Lia.
From DV Require Import Prelude Cost Grid Dtw DtwSpec DtwFacts DtwProps Band BandTie PyDist PyDistProofs Prune
  PyDistPrune PyWps.
From DVGen Require Import Gen_dtw.
Import ListNotations.
Open Scope Z_scope.

Section WpsRefine.
Variable u : usettings.
Variables s1 s2 : list point.
Variable B : cost.
Local Notation r := (length s1).
Local Notation c := (length s2).
Hypothesis Hw : 1 <= eff_window u r c.
Hypothesis Hr : (1 <= r)%nat.
Hypothesis Hc : (1 <= c)%nat.
Hypothesis Hpen : pen_ok u.
Hypothesis Hpsi : (psi_1b u < r)%nat \/ (psi_2e u < c)%nat.

Local Notation jS := (js u s1 s2).
Local Notation jE := (je u s1 s2).
Local Notation M := (Mfun u s1 s2).
Local Notation Qb := (Q B).
Local Notation bigb := (big B).
Local Notation SI := (SInv u s1 s2 B).
Local Notation EI := (EInv u s1 s2 B).

Lemma wjs_js i : wjs u s1 s2 i = jS i.
Proof. unfold wjs, js, py_wps_j_start, py_dist_j_start. lia. Qed.
Lemma wje_je i : wje u s1 s2 i = jE i.
Proof. unfold wje, je, py_wps_j_end, py_dist_j_end. lia. Qed.

Lemma jE_le i : (i < r)%nat -> (jS i < jE i)%nat /\ (jE i <= c)%nat.
Proof. intros Hi. destruct (geom_row u s1 s2 Hw Hr Hc i Hi) as (G1 & G2 & _). split; assumption. Qed.

(* a full matrix row: every column is Q-related to the specification *)
Definition WRowOK (a : nat) (row : list cost) : Prop :=
  length row = (c + 1)%nat /\ forall q, (q <= c)%nat -> Qb (rget row q) (M a q).

Lemma wrow0_ok : WRowOK 0 (wrow0 u s2).
Proof.
  split; [unfold wrow0; rewrite map_length, seq_length; reflexivity|].
  intros q Hq. unfold rget, wrow0. rewrite nth_map_seq by lia. left. reflexivity.
Qed.

Lemma M_border a : M (S a) 0 = (if (S a <=? psi_1b u)%nat then Fin 0 else Inf).
Proof. unfold Mfun. rewrite Mf_S_0. reflexivity. Qed.

Section OneRow.
Variable i : nat.
Hypothesis Hi : (i < r)%nat.
Variable prev : list cost.
Hypothesis Hprev : WRowOK i prev.
Variables sc ec : nat.                    (* sc: after the "if i <= psi_1b: sc = 0" of the code *)
Hypothesis HS : SI (S i) sc.
Hypothesis Hreset : (i <= psi_1b u)%nat -> sc = 0%nat.
Hypothesis HE : EI i ec.

Let j0 := Nat.max (jS i) sc.

Definition WCurOK (j : nat) (cur : list cost) : Prop :=
  forall q, (q <= c)%nat -> if (q <=? j)%nat then Qb (rget cur q) (M (S i) q) else rget cur q = Inf.

Lemma wall_big0 col : (1 <= col <= j0)%nat -> bigb (M (S i) col).
Proof.
  intros Hcol. destruct col as [|col]; [lia|].
  destruct (Nat.le_gt_cases (S col) sc) as [Hle|Hgt]; [apply HS; lia|].
  left. apply (M_out u s1 s2 Hw Hr Hc i col Hi). unfold j0 in Hcol. lia.
Qed.

Lemma wout_big col : (jE i < col)%nat -> bigb (M (S i) col).
Proof.
  intros H. destruct col as [|col]; [lia|]. left. apply (M_out u s1 s2 Hw Hr Hc i col Hi). lia.
Qed.

Lemma winit_length : length (wrow_init u s2 i) = (c + 1)%nat.
Proof. unfold wrow_init. rewrite upd_nat_length, repeat_length. reflexivity. Qed.

Lemma winit_ok j : (j <= j0)%nat -> WCurOK j (wrow_init u s2 i).
Proof.
  intros Hj q Hq. unfold wrow_init, rget.
  destruct q as [|q].
  - rewrite nth_upd_nat_eq by (rewrite repeat_length; lia). cbn [Nat.leb]. rewrite M_border. apply Q_refl.
  - rewrite nth_upd_nat_neq by lia. rewrite nth_repeat_inf.
    destruct (Nat.leb_spec (S q) j); [|reflexivity]. apply Q_inf. apply wall_big0. lia.
Qed.

Lemma wcur_upd j cur v : (j < c)%nat -> length cur = (c + 1)%nat -> WCurOK j cur ->
  Qb v (M (S i) (S j)) -> WCurOK (S j) (upd_nat cur (j + 1 - 0) v).
Proof.
  intros Hj Hlen Hcur Hv q Hq. replace (j + 1 - 0)%nat with (S j) by lia.
  destruct (Nat.eq_dec q (S j)) as [->|Hne].
  - unfold rget. rewrite nth_upd_nat_eq by lia. rewrite Nat.leb_refl. exact Hv.
  - unfold rget. rewrite nth_upd_nat_neq by lia. fold (rget cur q). specialize (Hcur q Hq).
    destruct (Nat.leb_spec q j); destruct (Nat.leb_spec q (S j)); try exact Hcur; lia.
Qed.

Lemma wcur_skip j cur : WCurOK j cur -> M (S i) (S j) = Inf -> WCurOK (S j) cur.
Proof.
  intros Hcur HM q Hq. specialize (Hcur q Hq).
  destruct (Nat.eq_dec q (S j)) as [->|Hne].
  - rewrite Nat.leb_refl. destruct (Nat.leb_spec (S j) j); [lia|]. rewrite Hcur, HM. apply Q_refl.
  - destruct (Nat.leb_spec q j); destruct (Nat.leb_spec q (S j)); try exact Hcur; lia.
Qed.

Lemma wcur_extend j cur : WCurOK j cur -> (forall col, (j < col)%nat -> bigb (M (S i) col)) ->
  forall j', (j <= j')%nat -> WCurOK j' cur.
Proof.
  intros Hcur Hbig j' Hj' q Hq. specialize (Hcur q Hq).
  destruct (Nat.leb_spec q j); destruct (Nat.leb_spec q j'); try exact Hcur; try lia.
  rewrite Hcur. apply Q_inf. apply Hbig. lia.
Qed.

Record WInv (j : nat) (st : pst) : Prop := {
  wi_len : length (p_cur st) = (c + 1)%nat;
  wi_sc : SI (S i) (p_sc st);
  wi_run : p_stop st = false ->
    WCurOK j (p_cur st) /\
    (p_smaller st = false -> forall col, (1 <= col <= j)%nat -> bigb (M (S i) col)) /\
    (forall col, (p_ecn st + 1 <= col <= j)%nat -> bigb (M (S i) col));
  wi_stop : p_stop st = true -> WCurOK (jE i) (p_cur st) /\ EI (S i) (p_ecn st) }.

Lemma wstep_ok j st : (j0 <= j < jE i)%nat -> WInv j st ->
  WInv (S j) (pstep u s1 s2 B i 0 0 prev ec st j).
Proof.
  intros Hj0 [Hlen Hsc Hrun Hstop]. unfold pstep.
  destruct (p_stop st) eqn:Est.
  { constructor; [exact Hlen|exact Hsc|intros F; congruence|intros _; apply Hstop; reflexivity]. }
  destruct (Hrun eq_refl) as (Hcur & Hnos & Hecn). clear Hrun Hstop.
  assert (Hj : (jS i <= j < jE i)%nat) by (unfold j0 in Hj0; lia).
  destruct (jE_le i Hi) as [G1 G2].
  pose proof (M_S_S u s1 s2 i j) as HM. rewrite (cell_in u s1 s2 Hw Hr Hc i j Hi Hj) in HM.
  destruct (cleb (Fin (pdist (u_inner u) (nth i s1 []) (nth j s2 []))) (adj_max_step u)) eqn:Ems; cbn [negb].
  2:{ assert (HI : M (S i) (S j) = Inf) by (rewrite HM; reflexivity).
      constructor; [exact Hlen|exact Hsc| |intros F; congruence].
      intros _. split; [apply wcur_skip; assumption|]. split.
      - intros Hs col Hcol. destruct (Nat.eq_dec col (S j)) as [->|Hne]; [rewrite HI; apply big_inf|apply Hnos; [exact Hs|lia]].
      - intros col Hcol. destruct (Nat.eq_dec col (S j)) as [->|Hne]; [rewrite HI; apply big_inf|apply Hecn; lia]. }
  destruct Hprev as [Hpl Hpq].
  assert (Rd : Qb (rget prev (j - 0)) (M i j)) by (rewrite Nat.sub_0_r; apply Hpq; lia).
  assert (Ru : Qb (rget prev (j + 1 - 0)) (M i (S j))) by (replace (j + 1 - 0)%nat with (S j) by lia; apply Hpq; lia).
  assert (Rl : Qb (rget (p_cur st) (j - 0)) (M (S i) j)).
  { rewrite Nat.sub_0_r. pose proof (Hcur j ltac:(lia)) as H. rewrite Nat.leb_refl in H. exact H. }
  set (dv := Fin (pdist (u_inner u) (nth i s1 []) (nth j s2 []))) in *.
  set (v := code_cell (adj_penalty u) dv (rget prev (j - 0)) (rget prev (j + 1 - 0)) (rget (p_cur st) (j - 0))).
  assert (Hv : Qb v (M (S i) (S j))).
  { rewrite HM. apply Q_code_cell; auto; [apply adj_penalty_nonneg; exact Hpen|apply cle_fin; apply pdist_nonneg]. }
  assert (Hupd : WCurOK (S j) (upd_nat (p_cur st) (j + 1 - 0) v)) by (apply wcur_upd; [lia|assumption..]).
  destruct (cleb v B) eqn:EvB; cbn [negb].
  - constructor; cbn [p_cur p_sc p_smaller p_ecn p_stop];
      [rewrite upd_nat_length; exact Hlen|exact Hsc| |intros F; discriminate].
    intros _. split; [exact Hupd|]. split; [intros F; discriminate|intros col Hcol; lia].
  - assert (Hbig : bigb (M (S i) (S j))) by (right; eapply Q_gt; [exact Hv|exact EvB]).
    constructor; cbn [p_cur p_sc p_smaller p_ecn p_stop].
    + rewrite upd_nat_length; exact Hlen.
    + destruct (p_smaller st) eqn:Es; [exact Hsc|].
      intros col Hcol. destruct (Nat.eq_dec col (S j)) as [->|Hne]; [exact Hbig|apply Hnos; [reflexivity|lia]].
    + intros Hns. split; [exact Hupd|]. split.
      * intros Hs col Hcol. destruct (Nat.eq_dec col (S j)) as [->|Hne]; [exact Hbig|apply Hnos; [exact Hs|lia]].
      * intros col Hcol. destruct (Nat.eq_dec col (S j)) as [->|Hne]; [exact Hbig|apply Hecn; lia].
    + intros Hbr. apply Nat.leb_le in Hbr.
      pose proof (E_break u s1 s2 B Hr Hc Hpen Hpsi i ec j HE Hbr Hbig) as Hrest.
      split.
      * apply (wcur_extend (S j)); [exact Hupd|intros col Hcol; apply Hrest; lia|lia].
      * intros col Hcol. destruct (Nat.le_gt_cases col j) as [Hle|Hgt]; [apply Hecn; lia|apply Hrest; lia].
Qed.

Lemma wfold_ok : forall n j st, (j0 <= j)%nat -> (j + n <= jE i)%nat -> WInv j st ->
  WInv (j + n) (fold_left (pstep u s1 s2 B i 0 0 prev ec) (seq j n) st).
Proof.
  induction n as [|n IH]; intros j st H1 H2 H; simpl; [rewrite Nat.add_0_r; exact H|].
  replace (j + S n)%nat with (S j + n)%nat by lia. apply IH; [lia|lia|]. apply wstep_ok; [lia|exact H].
Qed.

Lemma wrow_step_ok sc0 : sc = (if (i <=? psi_1b u)%nat then 0%nat else sc0) ->
  let '(cur, sc', ec') := wrow_step u s1 s2 B i prev sc0 ec in
  WRowOK (S i) cur /\ SI (S i) sc' /\ EI (S i) ec'.
Proof.
  intros Esc. destruct (jE_le i Hi) as [G1 G2].
  unfold wrow_step. rewrite <- Esc. rewrite wjs_js, wje_je. fold j0.
  set (st0 := {| p_cur := wrow_init u s2 i; p_sc := sc; p_smaller := false; p_ecn := i; p_stop := false |}).
  assert (H0 : WInv j0 st0).
  { constructor; cbn [p_cur p_sc p_smaller p_ecn p_stop]; [apply winit_length|exact HS| |intros F; discriminate].
    intros _. split; [apply winit_ok; lia|]. split; intros; apply wall_big0; lia. }
  assert (Hfinish : forall cur, length cur = (c + 1)%nat -> WCurOK (jE i) cur -> WRowOK (S i) cur).
  { intros cur Hl Hcur. split; [exact Hl|]. intros q Hq. specialize (Hcur q Hq).
    destruct (Nat.leb_spec q (jE i)); [exact Hcur|]. rewrite Hcur. apply Q_inf. apply wout_big. lia. }
  destruct (Nat.le_gt_cases (jE i) j0) as [Hge|Hlt].
  - replace (jE i - j0)%nat with 0%nat by lia. cbn [seq fold_left]. cbn [p_cur p_sc p_ecn st0].
    split; [|split; [exact HS|]].
    + apply Hfinish; [apply winit_length|apply winit_ok; exact Hge].
    + intros col Hcol. destruct (Nat.le_gt_cases col j0); [apply wall_big0; lia|apply wout_big; lia].
  - pose proof (wfold_ok (jE i - j0) j0 st0 (le_n _) ltac:(lia) H0) as HL.
    replace (j0 + (jE i - j0))%nat with (jE i) in HL by lia.
    set (st := fold_left (pstep u s1 s2 B i 0 0 prev ec) (seq j0 (jE i - j0)) st0) in *.
    destruct HL as [Hlen Hsc Hrun Hstop].
    assert (Hfin : WCurOK (jE i) (p_cur st) /\ EI (S i) (p_ecn st)).
    { destruct (p_stop st) eqn:Es; [apply Hstop; reflexivity|].
      destruct (Hrun eq_refl) as (Hcur & _ & Hecn). split; [exact Hcur|].
      intros col Hcol. destruct (Nat.le_gt_cases col (jE i)); [apply Hecn; lia|apply wout_big; lia]. }
    destruct Hfin as [Hcur HEn].
    split; [apply Hfinish; assumption|split; [exact Hsc|exact HEn]].
Qed.
End OneRow.

(* ------------------------------------------------------------ all rows *)
Lemma wrows_ok : forall n, (n <= r)%nat ->
  let '(acc, prev, sc, ec) := wrows u s1 s2 B n in
  length acc = S n /\ (forall a, (a <= n)%nat -> WRowOK a (nth a acc [])) /\ prev = nth n acc [] /\
  ((psi_1b u < n)%nat -> SI (S n) sc) /\ EI n ec.
Proof.
  induction n as [|i IH]; intros Hn.
  - cbn [wrows]. split; [reflexivity|]. split.
    + intros a Ha. replace a with 0%nat by lia. apply wrow0_ok.
    + split; [reflexivity|]. split; [intros _ col Hcol; lia|].
      intros col Hcol. destruct col as [|col]; [lia|]. rewrite (M_0_S u s1 s2 Hr Hc Hpsi) by lia. apply big_inf.
  - specialize (IH ltac:(lia)). cbn [wrows].
    destruct (wrows u s1 s2 B i) as [[[acc prev] sc] ec].
    destruct IH as (Hlen & Hrows & Hprev & HS & HE).
    assert (Hi : (i < r)%nat) by lia.
    assert (Hp : WRowOK i prev) by (rewrite Hprev; apply Hrows; lia).
    set (sce := if (i <=? psi_1b u)%nat then 0%nat else sc).
    assert (HSe : SI (S i) sce).
    { unfold sce. destruct (Nat.leb_spec i (psi_1b u)); [intros col Hcol; lia|apply HS; lia]. }
    assert (Hres : (i <= psi_1b u)%nat -> sce = 0%nat).
    { intros H. unfold sce. destruct (Nat.leb_spec i (psi_1b u)); [reflexivity|lia]. }
    pose proof (wrow_step_ok i Hi prev Hp sce ec HSe Hres HE sc eq_refl) as Hrow.
    destruct (wrow_step u s1 s2 B i prev sc ec) as [[cur sc'] ec'].
    destruct Hrow as (Hrow & HS' & HE').
    split; [rewrite app_length; simpl; lia|]. split.
    + intros a Ha. destruct (Nat.eq_dec a (S i)) as [->|Hne].
      * rewrite app_nth2 by lia. replace (S i - length acc)%nat with 0%nat by lia. exact Hrow.
      * rewrite app_nth1 by lia. apply Hrows. lia.
    + split; [rewrite app_nth2 by lia; replace (S i - length acc)%nat with 0%nat by lia; reflexivity|].
      split; [intros Hlt; apply (S_next u s1 s2 B Hr Hc Hpen Hpsi); [lia|exact HS']|exact HE'].
Qed.

(* ------------------------------------------------------------ the matrix, cell by cell *)
Theorem wps_code_matrix_cells : forall i j, (i <= r)%nat -> (j <= c)%nat ->
  Qb (mget (wps_code_matrix u s1 s2 B) i j) (mget (wps_matrix u s1 s2) i j).
Proof.
  intros i j Hi Hj. rewrite wps_matrix_Mfun by assumption.
  unfold wps_code_matrix. pose proof (wrows_ok r (le_n _)) as H.
  destruct (wrows u s1 s2 B r) as [[[acc prev] sc] ec]. destruct H as (_ & Hrows & _). cbn [fst].
  destruct (Hrows i Hi) as [_ Hq]. unfold mget. apply Hq. exact Hj.
Qed.

Theorem wps_code_matrix_shape :
  length (wps_code_matrix u s1 s2 B) = S r /\
  forall i, (i <= r)%nat -> length (nth i (wps_code_matrix u s1 s2 B) []) = S c.
Proof.
  unfold wps_code_matrix. pose proof (wrows_ok r (le_n _)) as H.
  destruct (wrows u s1 s2 B r) as [[[acc prev] sc] ec]. destruct H as (Hl & Hrows & _). cbn [fst].
  split; [exact Hl|]. intros i Hi. destruct (Hrows i Hi) as [Hlen _]. rewrite Hlen. lia.
Qed.

(* ------------------------------------------------------------ the value *)
Lemma Q_map_cands (f g : nat -> cost) l : (forall k, In k l -> Qb (f k) (g k)) -> Forall2 Qb (map f l) (map g l).
Proof.
  induction l as [|k l IH]; intros H; simpl; constructor; [apply H; left; reflexivity|].
  apply IH. intros k' Hk'. apply H. right. exact Hk'.
Qed.

Lemma cmin_of_cltb x y : (if cltb x y then x else y) = cmin x y.
Proof.
  unfold cltb, cmin. destruct (cleb y x) eqn:E1; destruct (cleb x y) eqn:E2; cbn [negb]; try reflexivity.
  - apply cle_antisym; assumption.
  - destruct (cle_total x y) as [H|H]; unfold cle in H; congruence.
Qed.

Theorem wps_code_value_spec fc :
  Qb (wps_code_value u s1 s2 B (wps_code_matrix u s1 s2 B) false) (dtw_value u s1 s2) /\
  (fc = true -> wps_code_value u s1 s2 B (wps_code_matrix u s1 s2 B) fc = bounded B (dtw_value u s1 s2)).
Proof.
  set (m := wps_code_matrix u s1 s2 B).
  assert (Hcell : forall i j, (i <= r)%nat -> (j <= c)%nat -> Qb (mget m i j) (M i j)).
  { intros i j Hi Hj. pose proof (wps_code_matrix_cells i j Hi Hj) as H. rewrite wps_matrix_Mfun in H by assumption. exact H. }
  assert (HA : Qb (cmin_list (map (fun k => mget m (r - k) c) (seq 0 (S (Nat.min (psi_1e u) (r - 1))))))
                  (cmin_list (candA u s1 s2))).
  { unfold candA. apply Q_cmin_list. apply Q_map_cands. intros k _. apply Hcell; lia. }
  assert (HB : Qb (cmin_list (map (fun k => mget m r (c - k)) (seq 0 (S (Nat.min (psi_2e u) (c - 1))))))
                  (cmin_list (candB u s1 s2))).
  { unfold candB. apply Q_cmin_list. apply Q_map_cands. intros k _. apply Hcell; lia. }
  assert (Hd : Qb (wps_code_value u s1 s2 B m false) (dtw_value u s1 s2)).
  { rewrite dtw_value_cands. unfold wps_code_value. cbn [andb].
    assert (Hsplit : cmin_list (candA u s1 s2 ++ candB u s1 s2) = cmin (cmin_list (candA u s1 s2)) (cmin_list (candB u s1 s2))).
    { generalize (candA u s1 s2) (candB u s1 s2). induction l as [|x l IH]; intros l'; simpl; [rewrite cmin_inf_l; reflexivity|].
      rewrite IH. unfold cmin at 1 3 4.
      destruct x as [x|]; destruct (cmin_list l) as [a|]; destruct (cmin_list l') as [b|]; unfold cmin, cleb;
        repeat match goal with |- context [(?p <=? ?q)] => destruct (Z.leb_spec p q) end; try reflexivity; try lia;
        f_equal; lia. }
    rewrite Hsplit.
    destruct (Nat.eq_dec (psi_1e u) 0) as [E1|E1]; destruct (Nat.eq_dec (psi_2e u) 0) as [E2|E2].
    - (* no end relaxation: both candidate lists are the corner *)
      rewrite E1, E2. cbn [Nat.eqb andb].
      unfold candA, candB. rewrite E1, E2. cbn [Nat.min seq map cmin_list]. rewrite !Nat.sub_0_r, !cmin_inf_r.
      rewrite cmin_idem. apply Hcell; lia.
    - assert (B1 : (psi_1e u =? 0)%nat = true) by (apply Nat.eqb_eq; exact E1).
      assert (B2 : (psi_2e u =? 0)%nat = false) by (apply Nat.eqb_neq; exact E2).
      rewrite B1, B2. cbn [andb]. rewrite cmin_of_cltb, cmin_inf_l.
      (* the corner, the only candidate of the last column, is also the first of the last row *)
      assert (Habs : cmin (cmin_list (candA u s1 s2)) (cmin_list (candB u s1 s2)) = cmin_list (candB u s1 s2)).
      { unfold candA. rewrite E1. cbn [Nat.min seq map cmin_list]. rewrite Nat.sub_0_r, cmin_inf_r.
        unfold candB. cbn [seq map cmin_list]. rewrite Nat.sub_0_r.
        set (x := M r c). set (t := cmin_list _).
        unfold cmin. destruct x as [x|]; destruct t as [t|]; unfold cleb;
          repeat match goal with |- context [(?p <=? ?q)] => destruct (Z.leb_spec p q) end; try reflexivity; try lia. }
      rewrite Habs. exact HB.
    - assert (B1 : (psi_1e u =? 0)%nat = false) by (apply Nat.eqb_neq; exact E1).
      assert (B2 : (psi_2e u =? 0)%nat = true) by (apply Nat.eqb_eq; exact E2).
      rewrite B1, B2. cbn [andb]. rewrite cmin_of_cltb, cmin_inf_r.
      assert (Habs : cmin (cmin_list (candA u s1 s2)) (cmin_list (candB u s1 s2)) = cmin_list (candA u s1 s2)).
      { unfold candB. rewrite E2. cbn [Nat.min seq map cmin_list]. rewrite Nat.sub_0_r, cmin_inf_r.
        unfold candA. cbn [seq map cmin_list]. rewrite Nat.sub_0_r.
        set (x := M r c). set (t := cmin_list _).
        unfold cmin. destruct x as [x|]; destruct t as [t|]; unfold cleb;
          repeat match goal with |- context [(?p <=? ?q)] => destruct (Z.leb_spec p q) end; try reflexivity; try lia. }
      rewrite Habs. exact HA.
    - assert (B1 : (psi_1e u =? 0)%nat = false) by (apply Nat.eqb_neq; exact E1).
      assert (B2 : (psi_2e u =? 0)%nat = false) by (apply Nat.eqb_neq; exact E2).
      rewrite B1, B2. cbn [andb]. rewrite cmin_of_cltb. apply Q_cmin; assumption. }
  split; [exact Hd|]. intros ->.
  unfold wps_code_value in *. cbn [andb] in *. apply Q_bounded. exact Hd.
Qed.

End WpsRefine.

(* without a bound the code's matrix IS the specification matrix *)
Theorem wps_code_matrix_exact u s1 s2 :
  1 <= eff_window u (length s1) (length s2) -> (1 <= length s1)%nat -> (1 <= length s2)%nat -> pen_ok u ->
  (psi_1b u < length s1)%nat \/ (psi_2e u < length s2)%nat ->
  forall i j, (i <= length s1)%nat -> (j <= length s2)%nat ->
  mget (wps_code_matrix u s1 s2 Inf) i j = mget (wps_matrix u s1 s2) i j.
Proof.
  intros Hw Hr Hc Hp Hpsi i j Hi Hj.
  destruct (wps_code_matrix_cells u s1 s2 Inf Hw Hr Hc Hp Hpsi i j Hi Hj) as [H|[H _]]; [exact H|].
  unfold gtB in H. destruct (mget (wps_code_matrix u s1 s2 Inf) i j); discriminate.
Qed.
