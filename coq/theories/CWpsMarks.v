(* The -1 marks of dtw_warping_paths_ndim (psi_neg = true): after the end-of-series scans the kernel overwrites with -1
   the cells of the last column below the chosen end row - or the cells of the last row right of the chosen end
   column - that the relaxed end skips.  On an array whose rows hold the matrix M: the value returned is the minimum
   over the psi-relaxed end cells, it is attained at the chosen end cell (ie, je), which is the FIRST minimum of the
   downward scan of its line, and the array afterwards differs from the array before exactly in the marked slots. *)
From Coq Require Import ZArith Bool Lia List.
From DV Require Import Prelude Cost Grid Dtw DtwProps CWps CFill CExpand CFillSim CLang CDistCanon CDistProofs CWpsCanon CWpsKernel CWpsValue.
From DVGen Require Import Gen_cwps Gen_cfill Gen_cwpsk.
Import ListNotations.
Open Scope Z_scope.

Lemma cltb_inf_r_false x : cltb Inf x = false.
Proof. destruct x; reflexivity. Qed.
Lemma cltb_true_fin x y : cltb x y = true -> x <> Inf.
Proof. intros H E. subst. rewrite cltb_inf_r_false in H. discriminate. Qed.
Lemma cltb_cle_trans a b c : cltb a b = true -> cle b c -> cltb a c = true.
Proof. unfold cltb, cle. destruct a, b, c; cbn; intros H1 H2; try reflexivity; try discriminate. apply negb_true_iff in H1. apply negb_true_iff. apply Z.leb_gt in H1. apply Z.leb_le in H2. apply Z.leb_gt. lia. Qed.
Lemma cmin_lt a b : cltb b a = true -> cmin a b = b.
Proof. unfold cltb, cmin. intros H. apply negb_true_iff in H. rewrite H. reflexivity. Qed.
Lemma cmin_nlt a b : cltb b a = false -> cmin a b = a.
Proof. unfold cltb, cmin. intros H. apply negb_false_iff in H. rewrite H. reflexivity. Qed.

Lemma inb_true' n i : 0 <= i < n -> inb n i = true.
Proof. intros H. unfold inb. apply andb_true_iff. split; [apply Z.leb_le|apply Z.ltb_lt]; lia. Qed.

(* where a downward scan stops: at the first minimum *)
Definition scan_pos (g : nat -> cost) (c : nat) (L rel0 rel : Z) (v : cost) : Prop :=
  (v = Inf /\ rel = rel0) \/
  (exists k, (k < c)%nat /\ rel = L - Z.of_nat k /\ g k = v /\ v <> Inf /\ forall j, (j < k)%nat -> cltb v (g j) = true).

Lemma scan_spec2 (f : Z * cost * bool * bool -> Z -> Z * cost * bool * bool) (n pe : nat) (g : nat -> cost) rel0 :
  (forall rel v ok x, f (rel, v, ok, true) x = (rel, v, ok, true)) ->
  (forall rel v k, (k < n)%nat ->
     f (rel, v, true, false) (Z.of_nat n - Z.of_nat k) =
       if (Z.of_nat n - Z.of_nat k + Z.of_nat pe >=? Z.of_nat n)
       then ((if cltb (g k) v then Z.of_nat n - Z.of_nat k else rel), cmin v (g k), true, false) else (rel, v, true, true)) ->
  exists rel b, fold_left f (zdown (Z.of_nat n) 0) (rel0, Inf, true, false)
                = (rel, cmin_list (map g (seq 0 (Nat.min n (Datatypes.S pe)))), true, b) /\
                scan_pos g (Nat.min n (Datatypes.S pe)) (Z.of_nat n) rel0 rel (cmin_list (map g (seq 0 (Nat.min n (Datatypes.S pe))))).
Proof.
  intros Hbrk Hstep. rewrite zdown_seq.
  pose (P := fun (k : nat) (st : Z * cost * bool * bool) =>
               exists rel b, st = (rel, cmin_list (map g (seq 0 (Nat.min k (Datatypes.S pe)))), true, b) /\
                             (b = false -> (k <= Datatypes.S pe)%nat) /\ (b = true -> (Datatypes.S pe <= k)%nat) /\
                             scan_pos g (Nat.min k (Datatypes.S pe)) (Z.of_nat n) rel0 rel (cmin_list (map g (seq 0 (Nat.min k (Datatypes.S pe)))))).
  assert (HP : P n (fold_left f (map (fun k => Z.of_nat n - Z.of_nat k) (seq 0 n)) (rel0, Inf, true, false))).
  { apply fold_seq_inv.
    - exists rel0, false. split; [reflexivity|]. split; [lia|]. split; [discriminate|]. left. split; reflexivity.
    - intros k s Hk (rel & b & -> & Hb1 & Hb2 & Hpos). destruct b.
      + rewrite Hbrk. exists rel, true. specialize (Hb2 eq_refl).
        replace (Nat.min (Datatypes.S k) (Datatypes.S pe)) with (Nat.min k (Datatypes.S pe)) by lia.
        split; [reflexivity|]. split; [discriminate|]. split; [lia|exact Hpos].
      + specialize (Hb1 eq_refl). rewrite (Hstep rel _ k Hk).
        rewrite Z.geb_leb. destruct (Z.leb_spec (Z.of_nat n) (Z.of_nat n - Z.of_nat k + Z.of_nat pe)).
        * replace (Nat.min k (Datatypes.S pe)) with k in * by lia.
          set (v := cmin_list (map g (seq 0 k))) in *.
          assert (Ev : cmin_list (map g (seq 0 (Nat.min (Datatypes.S k) (Datatypes.S pe)))) = cmin v (g k)).
          { replace (Nat.min (Datatypes.S k) (Datatypes.S pe)) with (Datatypes.S k) by lia.
            rewrite seq_S, map_app, cmin_list_app. cbn [map cmin_list Nat.add]. rewrite cmin_inf_r. reflexivity. }
          exists (if cltb (g k) v then Z.of_nat n - Z.of_nat k else rel), false. rewrite Ev.
          split; [reflexivity|]. split; [lia|]. split; [discriminate|].
          replace (Nat.min (Datatypes.S k) (Datatypes.S pe)) with (Datatypes.S k) by lia.
          destruct (cltb (g k) v) eqn:Ec.
          -- rewrite (cmin_lt v (g k) Ec). right. exists k. split; [lia|]. split; [reflexivity|]. split; [reflexivity|].
             split; [exact (cltb_true_fin _ _ Ec)|]. intros j Hj. apply (cltb_cle_trans _ v); [exact Ec|].
             apply cmin_list_le. apply in_map. apply in_seq. lia.
          -- rewrite (cmin_nlt v (g k) Ec). destruct Hpos as [[E1 E2]|(ks & Hks & Er & Eg & Hne & Hlt)].
             ++ left. split; assumption.
             ++ right. exists ks. repeat split; try assumption; lia.
        * exists rel, true. replace (Nat.min (Datatypes.S k) (Datatypes.S pe)) with (Nat.min k (Datatypes.S pe)) by lia.
          split; [reflexivity|]. split; [discriminate|]. split; [lia|exact Hpos]. }
  destruct HP as (rel & b & E & _ & _ & Hpos). exists rel, b. split; assumption.
Qed.

(* a loop that stores -1 in the slot idxf x of every x of its range that passes the test *)
Lemma marks_spec wl (body : bool * list cost -> Z -> bool * list cost) (cond : Z -> bool) (idxf : Z -> Z) wps a n :
  (forall ok w x, body (ok, w) x = if cond x then (ok && inb wl (idxf x), aset w (idxf x) (Fin (-1))) else (ok, w)) ->
  (forall x, a <= x < a + Z.of_nat n -> cond x = true -> 0 <= idxf x < wl) -> Z.of_nat (length wps) = wl ->
  exists wps', fold_left body (zrange a (a + Z.of_nat n)) (true, wps) = (true, wps') /\ length wps' = length wps /\
    (forall x, a <= x < a + Z.of_nat n -> cond x = true -> aget wps' (idxf x) = Fin (-1)) /\
    (forall i, (forall x, a <= x < a + Z.of_nat n -> cond x = true -> idxf x <> i) -> aget wps' i = aget wps i).
Proof.
  intros Hb Hin Hl.
  pose (P := fun (k : nat) (st : bool * list cost) => fst st = true /\ length (snd st) = length wps /\
     (forall x, a <= x < a + Z.of_nat k -> cond x = true -> aget (snd st) (idxf x) = Fin (-1)) /\
     (forall i, (forall x, a <= x < a + Z.of_nat k -> cond x = true -> idxf x <> i) -> aget (snd st) i = aget wps i)).
  assert (HP : P n (fold_left body (zrange a (a + Z.of_nat n)) (true, wps))).
  { apply fold_zrange_from.
    - unfold P. cbn [fst snd]. split; [reflexivity|]. split; [reflexivity|]. split; [intros; lia|intros; reflexivity].
    - intros k [ok w] Hk (Hok & Hlen & Hm & Ho). cbn [fst snd] in *. subst ok. rewrite Hb. unfold P.
      destruct (cond (a + Z.of_nat k)) eqn:Ec; cbn [fst snd].
      + rewrite (inb_true' wl _ (Hin (a + Z.of_nat k) ltac:(lia) Ec)). cbn [andb].
        split; [reflexivity|]. split; [rewrite aset_length; exact Hlen|]. split.
        * intros x Hx Hcx. destruct (Z.eq_dec (idxf x) (idxf (a + Z.of_nat k))) as [E|E].
          -- rewrite E. apply aget_aset_same. rewrite Hlen, Hl. apply Hin; [lia|exact Ec].
          -- rewrite aget_aset_other by lia. apply Hm; [|exact Hcx].
             destruct (Z.eq_dec x (a + Z.of_nat k)) as [->|]; [contradiction|lia].
        * intros i Hi. rewrite aget_aset_other by (apply Hi; [lia|exact Ec]). apply Ho. intros x Hx. apply Hi. lia.
      + split; [reflexivity|]. split; [exact Hlen|]. split.
        * intros x Hx Hcx. apply Hm; [|exact Hcx]. destruct (Z.eq_dec x (a + Z.of_nat k)) as [->|]; [congruence|lia].
        * intros i Hi. apply Ho. intros x Hx. apply Hi. lia. }
  destruct (fold_left body (zrange a (a + Z.of_nat n)) (true, wps)) as [ok w].
  destruct HP as (Hok & Hlen & Hm & Ho). cbn [fst snd] in *. subst ok. exists w. split; [reflexivity|]. split; [exact Hlen|]. split; assumption.
Qed.

Section Marks.
Variables l1 l2 window0 : Z.
Hypothesis H1 : 1 <= l1.
Hypothesis H2 : 1 <= l2.
Hypothesis Hw : 0 <= window0.
Variable d : nat -> nat -> cost.
Variable pen : Z.
Variables p1b p2b : nat.
Hypothesis Hd : forall ri ci : nat, Z.of_nat ri < l1 ->
  ~ (blo l1 l2 window0 (Z.of_nat ri) <= Z.of_nat ci < bhi l1 l2 window0 (Z.of_nat ri)) -> d ri ci = Inf.
Local Notation W := (cw_width l1 l2 window0).
Local Notation shiftz := (cw_shift l1 l2 window0).
Local Notation wl := ((l1 + 1) * W).
Local Notation M := (Mf d pen p1b p2b).
Local Notation Mh := (holds l1 l2 window0 d pen p1b p2b).
Local Notation l1n := (Z.to_nat l1).
Local Notation l2n := (Z.to_nat l2).
Variable wps : list cost.
Hypothesis Hlen : Z.of_nat (length wps) = wl.
Hypothesis Hrows : forall k, (k <= l1n)%nat -> Mh k (rowf l1 l2 window0 wps k).
Local Notation last_col_read := (last_col_read l1 l2 window0 H1 H2 Hw d pen p1b p2b Hd wps Hlen Hrows).
Local Notation last_row_read := (last_row_read l1 l2 window0 H1 H2 Hw d pen p1b p2b Hd wps Hrows).
Local Notation end_value := (end_value l1 l2 d pen p1b p2b).
Local Notation ecands := (ecands l1 l2).

Definition gcol (k : nat) : cost := M (l1n - k) l2n.
Definition grow (k : nat) : cost := M l1n (l2n - k).
Definition c1 (p1e : nat) : nat := S (Nat.min p1e (l1n - 1)).
Definition c2 (p2e : nat) : nat := S (Nat.min p2e (l2n - 1)).

Lemma row_scan2 p1e rel0 : exists rel b,
  fold_left (c_dtw_warping_paths_ndim_loop26 shiftz (Z.of_nat p1e) l1 l2 W wps wl) (zdown l1 0) (rel0, Inf, true, false)
  = (rel, cmin_list (map gcol (seq 0 (c1 p1e))), true, b) /\
  scan_pos gcol (c1 p1e) l1 rel0 rel (cmin_list (map gcol (seq 0 (c1 p1e)))).
Proof.
  unfold c1. replace (S (Nat.min p1e (l1n - 1))) with (Nat.min l1n (S p1e)) by lia.
  assert (El : Z.of_nat l1n = l1) by lia.
  cut (exists rel b,
    fold_left (c_dtw_warping_paths_ndim_loop26 shiftz (Z.of_nat p1e) l1 l2 W wps wl) (zdown (Z.of_nat l1n) 0) (rel0, Inf, true, false)
    = (rel, cmin_list (map gcol (seq 0 (Nat.min l1n (S p1e)))), true, b) /\
    scan_pos gcol (Nat.min l1n (S p1e)) (Z.of_nat l1n) rel0 rel (cmin_list (map gcol (seq 0 (Nat.min l1n (S p1e)))))).
  { rewrite El. exact (fun H => H). }
  apply scan_spec2.
  - intros. reflexivity.
  - intros rel v k Hk. unfold c_dtw_warping_paths_ndim_loop26.
    replace (Z.of_nat l1n - Z.of_nat k) with (Z.of_nat (l1n - k)) by lia.
    replace (Z.of_nat l1n) with l1 by lia.
    destruct (Z.of_nat (l1n - k) + Z.of_nat p1e >=? l1); cbn [negb]; [|reflexivity].
    destruct (last_col_read (l1n - k)%nat ltac:(lia) ltac:(lia)) as [Hv Hi]. cbv zeta in Hv, Hi. fold (gcol k) in Hv.
    destruct ((l2 - shiftz (Z.of_nat (l1n - k) - 1) >=? 0) && (l2 - shiftz (Z.of_nat (l1n - k) - 1) <? W)) eqn:E.
    + rewrite (Hi eq_refl). cbn [negb orb andb]. rewrite Hv.
      destruct (cltb (gcol k) v) eqn:Ec; [rewrite (cmin_lt _ _ Ec)|rewrite (cmin_nlt _ _ Ec)]; reflexivity.
    + cbn [negb orb andb]. rewrite <- Hv, cmin_inf_r, cltb_inf_r_false. reflexivity.
Qed.

Lemma col_scan2 p2e rel0 : exists rel b,
  fold_left (c_dtw_warping_paths_ndim_loop27 shiftz (Z.of_nat p2e) l1 l2 W wps wl) (zdown l2 0) (rel0, Inf, true, false)
  = (rel, cmin_list (map grow (seq 0 (c2 p2e))), true, b) /\
  scan_pos grow (c2 p2e) l2 rel0 rel (cmin_list (map grow (seq 0 (c2 p2e)))).
Proof.
  unfold c2. replace (S (Nat.min p2e (l2n - 1))) with (Nat.min l2n (S p2e)) by lia.
  assert (El : Z.of_nat l2n = l2) by lia.
  cut (exists rel b,
    fold_left (c_dtw_warping_paths_ndim_loop27 shiftz (Z.of_nat p2e) l1 l2 W wps wl) (zdown (Z.of_nat l2n) 0) (rel0, Inf, true, false)
    = (rel, cmin_list (map grow (seq 0 (Nat.min l2n (S p2e)))), true, b) /\
    scan_pos grow (Nat.min l2n (S p2e)) (Z.of_nat l2n) rel0 rel (cmin_list (map grow (seq 0 (Nat.min l2n (S p2e)))))).
  { rewrite El. exact (fun H => H). }
  apply scan_spec2.
  - intros. reflexivity.
  - intros rel v k Hk. unfold c_dtw_warping_paths_ndim_loop27.
    replace (Z.of_nat l2n - Z.of_nat k) with (Z.of_nat (l2n - k)) by lia.
    replace (Z.of_nat l2n) with l2 by lia.
    destruct (Z.of_nat (l2n - k) + Z.of_nat p2e >=? l2); cbn [negb]; [|reflexivity].
    destruct (last_row_read (l2n - k)%nat ltac:(lia) ltac:(lia)) as [Hv Hi]. cbv zeta in Hv, Hi. fold (grow k) in Hv.
    destruct ((Z.of_nat (l2n - k) - shiftz (l1 - 1) >=? 0) && (Z.of_nat (l2n - k) - shiftz (l1 - 1) <? W)) eqn:E.
    + rewrite (Hi eq_refl). cbn [negb orb andb]. rewrite Hv.
      destruct (cltb (grow k) v) eqn:Ec; [rewrite (cmin_lt _ _ Ec)|rewrite (cmin_nlt _ _ Ec)]; reflexivity.
    + cbn [negb orb andb]. rewrite <- Hv, cmin_inf_r, cltb_inf_r_false. reflexivity.
Qed.

Definition marked (ie je : nat) (idx : Z) : Prop :=
  (je = l2n /\ exists ri : nat, (ie < ri <= l1n)%nat /\ 0 <= l2 - shiftz (Z.of_nat ri - 1) < W /\
                                 idx = Z.of_nat ri * W + (l2 - shiftz (Z.of_nat ri - 1))) \/
  (ie = l1n /\ exists ci : nat, (je < ci <= l2n)%nat /\ 0 <= Z.of_nat ci - shiftz (l1 - 1) < W /\
                                 idx = l1 * W + (Z.of_nat ci - shiftz (l1 - 1))).

(* the text of k_wtail after the two scans (psi_neg = true, no bound) *)
Definition after_scans (keep : bool) (a c : cost) (relr relc : Z) : cret * list cost * bool :=
  let '(ok, rvalue, wps0) :=
    let '(ok, rvalue, wps0) :=
      let '(ok, rvalue, wps0) :=
        if cltb a c then
          let '(ok, wps0) := (let '(ok, wps0) := fold_left (c_dtw_warping_paths_ndim_loop28 shiftz l2 W wl) (zrange (relr + 1) (l1 + 1)) (true, wps) in (ok, wps0)) in
          (ok, a, wps0)
        else
          let '(ok, wps0) := (let '(ok, wps0) := fold_left (c_dtw_warping_paths_ndim_loop29 shiftz l1 W wl) (zrange (relc + 1) (l2 + 1)) (true, wps) in (ok, wps0)) in
          (ok, c, wps0) in
      (ok, rvalue, wps0) in (ok, rvalue, wps0) in
  let '(ok0, rvalue0, wps1) :=
    if negb keep then
      let '(ok0, wps1) := fold_left (c_dtw_warping_paths_ndim_loop30 wl) (zrange 0 wl) (ok, wps0) in
      (ok0, (if cltb (Fin 0) (if cltb Inf rvalue then Inf else rvalue) then csqrt (if cltb Inf rvalue then Inf else rvalue)
             else if cltb Inf rvalue then Inf else rvalue), wps1)
    else (ok, (if cltb Inf rvalue then Inf else rvalue), wps0) in
  (RPlain rvalue0, wps1, ok0).

Lemma finish_marks (keep : bool) (v : cost) (w : list cost) : length w = length wps ->
  exists wps',
    (let '(ok0, rvalue0, wps1) :=
       if negb keep then
         let '(ok0, wps1) := fold_left (c_dtw_warping_paths_ndim_loop30 wl) (zrange 0 wl) (true, w) in
         (ok0, (if cltb (Fin 0) (if cltb Inf v then Inf else v) then csqrt (if cltb Inf v then Inf else v)
                else if cltb Inf v then Inf else v), wps1)
       else (true, (if cltb Inf v then Inf else v), w) in
     (RPlain rvalue0, wps1, ok0)) = (RPlain (sq_repr keep v), wps', true) /\
    length wps' = length wps /\ forall i, 0 <= i < wl -> aget wps' i = sq_repr keep (aget w i).
Proof.
  intros Hl. rewrite cltb_inf_l. destruct keep; cbn [negb sq_repr].
  - exists w. split; [reflexivity|]. split; [exact Hl|]. intros; reflexivity.
  - destruct (sqrt_pass wl w ltac:(rewrite Hl; exact Hlen)) as (w' & E & Hl' & Hc). rewrite E. exists w'.
    split; [reflexivity|]. split; [rewrite Hl'; exact Hl|exact Hc].
Qed.

Lemma sq_repr_m1 keep : sq_repr keep (Fin (-1)) = Fin (-1).
Proof. destruct keep; reflexivity. Qed.

Lemma after_scans_spec (keep : bool) (a c : cost) (relr relc : Z) (n1 n2 : nat) :
  (n1 <= l1n)%nat -> (n2 <= l2n)%nat ->
  scan_pos gcol n1 l1 l1 relr a -> scan_pos grow n2 l2 l2 relc c ->
  exists wps' (ie je : nat),
    after_scans keep a c relr relc = (RPlain (sq_repr keep (if cltb a c then a else c)), wps', true) /\
    length wps' = length wps /\ (ie <= l1n)%nat /\ (je <= l2n)%nat /\
    ((if cltb a c then a else c) <> Inf ->
       M ie je = (if cltb a c then a else c) /\
       ((je = l2n /\ exists k, (k < n1)%nat /\ ie = (l1n - k)%nat) \/ (ie = l1n /\ exists k, (k < n2)%nat /\ je = (l2n - k)%nat))) /\
    forall idx, 0 <= idx < wl ->
      (marked ie je idx -> aget wps' idx = Fin (-1)) /\ (~ marked ie je idx -> aget wps' idx = sq_repr keep (aget wps idx)).
Proof.
  intros Hn1 Hn2 HPr HPc. pose proof (W_pos l1 l2 window0 H1 H2 Hw) as HW. unfold after_scans.
  destruct (cltb a c) eqn:Eac.
  - (* the end lies in the last column: the rows below it are marked *)
    pose proof (cltb_true_fin _ _ Eac) as Ha.
    destruct HPr as [[E _]|(k & Hk & -> & Eg & _ & _)]; [contradiction|].
    assert (Ez : zrange (l1 - Z.of_nat k + 1) (l1 + 1) = zrange (l1 - Z.of_nat k + 1) (l1 - Z.of_nat k + 1 + Z.of_nat k)) by (f_equal; lia).
    rewrite Ez.
    destruct (marks_spec wl (c_dtw_warping_paths_ndim_loop28 shiftz l2 W wl)
                (fun ri => (l2 - shiftz (ri - 1) >=? 0) && (l2 - shiftz (ri - 1) <? W)) (fun ri => ri * W + (l2 - shiftz (ri - 1)))
                wps (l1 - Z.of_nat k + 1) k) as (w & Ew & Hlw & Hm & Ho).
    { intros ok w0 x. unfold c_dtw_warping_paths_ndim_loop28. destruct ((l2 - shiftz (x - 1) >=? 0) && (l2 - shiftz (x - 1) <? W)); reflexivity. }
    { intros x Hx Hc. apply andb_true_iff in Hc. destruct Hc as [Hc1 Hc2]. rewrite Z.geb_leb in Hc1. apply Z.leb_le in Hc1. apply Z.ltb_lt in Hc2. nia. }
    { exact Hlen. }
    rewrite Ew. cbv beta iota.
    destruct (finish_marks keep a w Hlw) as (wps' & Ef & Hlf & Hcf). rewrite Ef.
    exists wps', (l1n - k)%nat, l2n. split; [reflexivity|]. split; [exact Hlf|]. split; [lia|]. split; [lia|]. split.
    + intros _. split; [exact Eg|]. left. split; [reflexivity|]. exists k. split; [exact Hk|reflexivity].
    + intros idx Hidx. split.
      * intros [[_ (ri & Hri & Hrng & ->)]|[Hie (ci & Hci & _)]]; [|lia].
        rewrite Hcf by nia. rewrite Hm; [apply sq_repr_m1|lia|].
        apply andb_true_iff. split; [rewrite Z.geb_leb; apply Z.leb_le|apply Z.ltb_lt]; lia.
      * intros Hnm. rewrite Hcf by exact Hidx. f_equal. apply Ho. intros x Hx Hc E. apply Hnm. left. split; [reflexivity|].
        exists (Z.to_nat x). apply andb_true_iff in Hc. destruct Hc as [Hc1 Hc2]. rewrite Z.geb_leb in Hc1. apply Z.leb_le in Hc1. apply Z.ltb_lt in Hc2.
        rewrite Z2Nat.id by lia. split; [lia|]. split; [lia|]. symmetry. exact E.
  - (* the end lies in the last row: the columns right of it are marked *)
    assert (HK : exists k : nat, relc = l2 - Z.of_nat k /\ (k < n2 \/ k = 0)%nat /\ (c <> Inf -> grow k = c /\ (k < n2)%nat)).
    { destruct HPc as [[E ->]|(k & Hk & -> & Eg & Hne & _)].
      - exists 0%nat. split; [lia|]. split; [right; reflexivity|]. intros Hc. contradiction.
      - exists k. split; [reflexivity|]. split; [left; exact Hk|]. intros _. split; assumption. }
    destruct HK as (k & -> & Hk & Hck).
    assert (Hkl : (k <= l2n)%nat) by lia.
    assert (Ez : zrange (l2 - Z.of_nat k + 1) (l2 + 1) = zrange (l2 - Z.of_nat k + 1) (l2 - Z.of_nat k + 1 + Z.of_nat k)) by (f_equal; lia).
    rewrite Ez.
    destruct (marks_spec wl (c_dtw_warping_paths_ndim_loop29 shiftz l1 W wl)
                (fun ci => (ci - shiftz (l1 - 1) >=? 0) && (ci - shiftz (l1 - 1) <? W)) (fun ci => l1 * W + (ci - shiftz (l1 - 1)))
                wps (l2 - Z.of_nat k + 1) k) as (w & Ew & Hlw & Hm & Ho).
    { intros ok w0 x. unfold c_dtw_warping_paths_ndim_loop29. destruct ((x - shiftz (l1 - 1) >=? 0) && (x - shiftz (l1 - 1) <? W)); reflexivity. }
    { intros x Hx Hc. apply andb_true_iff in Hc. destruct Hc as [Hc1 Hc2]. rewrite Z.geb_leb in Hc1. apply Z.leb_le in Hc1. apply Z.ltb_lt in Hc2. nia. }
    { exact Hlen. }
    rewrite Ew. cbv beta iota.
    destruct (finish_marks keep c w Hlw) as (wps' & Ef & Hlf & Hcf). rewrite Ef.
    exists wps', l1n, (l2n - k)%nat. split; [reflexivity|]. split; [exact Hlf|]. split; [lia|]. split; [lia|]. split.
    + intros Hc. destruct (Hck Hc) as [Eg Hkn]. split; [exact Eg|]. right. split; [reflexivity|]. exists k. split; [exact Hkn|reflexivity].
    + intros idx Hidx. split.
      * intros [[Hje (ri & Hri & _)]|[_ (ci & Hci & Hrng & ->)]]; [lia|].
        rewrite Hcf by nia. rewrite Hm; [apply sq_repr_m1|lia|].
        apply andb_true_iff. split; [rewrite Z.geb_leb; apply Z.leb_le|apply Z.ltb_lt]; lia.
      * intros Hnm. rewrite Hcf by exact Hidx. f_equal. apply Ho. intros x Hx Hc E. apply Hnm. right. split; [reflexivity|].
        exists (Z.to_nat x). apply andb_true_iff in Hc. destruct Hc as [Hc1 Hc2]. rewrite Z.geb_leb in Hc1. apply Z.leb_le in Hc1. apply Z.ltb_lt in Hc2.
        rewrite Z2Nat.id by lia. split; [lia|]. split; [lia|]. symmetry. exact E.
Qed.

Lemma scan_pos_none (g : nat -> cost) n L : scan_pos g n L L L Inf.
Proof. left. split; reflexivity. Qed.

(* the kernel's tail with the marks requested *)
Theorem tail_marks (keep : bool) (p1e p2e : nat) :
  exists wps' (ie je : nat),
    k_wtail shiftz true keep true l1 l2 W wl wl Inf (Z.of_nat p1e) (Z.of_nat p2e) true wps
    = (RPlain (sq_repr keep (end_value p1e p2e)), wps', true) /\
    length wps' = length wps /\ (ie <= l1n)%nat /\ (je <= l2n)%nat /\
    (end_value p1e p2e <> Inf -> M ie je = end_value p1e p2e /\ In (ie, je) (ecands p1e p2e)) /\
    forall idx, 0 <= idx < wl ->
      (marked ie je idx -> aget wps' idx = Fin (-1)) /\ (~ marked ie je idx -> aget wps' idx = sq_repr keep (aget wps idx)).
Proof.
  assert (Hcands : forall ie je n1 n2, (n1 <= c1 p1e)%nat -> (n2 <= c2 p2e)%nat ->
            ((je = l2n /\ exists k, (k < n1)%nat /\ ie = (l1n - k)%nat) \/ (ie = l1n /\ exists k, (k < n2)%nat /\ je = (l2n - k)%nat)) ->
            In (ie, je) (ecands p1e p2e)).
  { intros ie je n1 n2 Hn1 Hn2 [[-> (k & Hk & ->)]|[-> (k & Hk & ->)]]; unfold ecands; apply in_or_app; [left|right];
      apply in_map_iff; exists k; (split; [reflexivity|apply in_seq; unfold c1, c2 in *; lia]). }
  destruct (Z.eqb_spec (Z.of_nat p1e) 0) as [E1|E1]; destruct (Z.eqb_spec (Z.of_nat p2e) 0) as [E2|E2].
  - (* no end relaxation: nothing to mark *)
    destruct (tail_value l1 l2 window0 H1 H2 Hw d pen p1b p2b Hd wps Hlen Hrows keep p1e p2e) as (wps' & E & Hl & Hc).
    exists wps', l1n, l2n. split.
    + rewrite <- E. unfold k_wtail. cbv zeta. cbn [andb].
      destruct (Z.eqb_spec (Z.of_nat p1e) 0); [|contradiction]. destruct (Z.eqb_spec (Z.of_nat p2e) 0); [|contradiction]. reflexivity.
    + split; [exact Hl|]. split; [lia|]. split; [lia|]. split.
      * intros _. replace p1e with 0%nat by lia. replace p2e with 0%nat by lia. split.
        -- rewrite end_value_split. cbn [Nat.min seq map cmin_list]. rewrite !Nat.sub_0_r, !cmin_inf_r.
           unfold cmin. destruct (cleb (M l1n l2n) (M l1n l2n)); reflexivity.
        -- unfold ecands. cbn [Nat.min seq map app]. rewrite !Nat.sub_0_r. left. reflexivity.
      * intros idx Hidx. split; [|intros _; apply Hc; exact Hidx].
        intros [[_ (ri & Hri & _)]|[_ (ci & Hci & _)]]; lia.
  - (* only the second series is relaxed at its end *)
    destruct (col_scan2 p2e l2) as (relc & b & E & HPc).
    destruct (after_scans_spec keep Inf (cmin_list (map grow (seq 0 (c2 p2e)))) l1 relc (c1 p1e) (c2 p2e)
                ltac:(unfold c1; lia) ltac:(unfold c2; lia) (scan_pos_none gcol _ l1) HPc) as (wps' & ie & je & EA & Hl & Hie & Hje & Hend & Hm).
    rewrite cltb_inf_l in EA, Hend.
    assert (Ev : end_value p1e p2e = cmin_list (map grow (seq 0 (c2 p2e)))).
    { rewrite end_value_split. replace p1e with 0%nat by lia. cbn [Nat.min]. cbn [seq map cmin_list].
      rewrite !Nat.sub_0_r, !cmin_inf_r. unfold c2, grow. cbn [seq map cmin_list]. rewrite Nat.sub_0_r. apply cmin_idem_l. }
    exists wps', ie, je. rewrite Ev. split.
    + rewrite <- EA. unfold k_wtail, after_scans. cbv zeta. cbn [andb].
      destruct (Z.eqb_spec (Z.of_nat p1e) 0); [|contradiction]. destruct (Z.eqb_spec (Z.of_nat p2e) 0); [contradiction|]. cbn [andb negb].
      rewrite E. rewrite cltb_inf_l. reflexivity.
    + split; [exact Hl|]. split; [exact Hie|]. split; [exact Hje|]. split; [|exact Hm].
      intros Hne. destruct (Hend Hne) as [HM Hc]. split; [exact HM|]. exact (Hcands ie je _ _ (le_n _) (le_n _) Hc).
  - (* only the first series is relaxed at its end *)
    destruct (row_scan2 p1e l1) as (relr & b & E & HPr).
    destruct (after_scans_spec keep (cmin_list (map gcol (seq 0 (c1 p1e)))) Inf relr l2 (c1 p1e) (c2 p2e)
                ltac:(unfold c1; lia) ltac:(unfold c2; lia) HPr (scan_pos_none grow _ l2)) as (wps' & ie & je & EA & Hl & Hie & Hje & Hend & Hm).
    set (a := cmin_list (map gcol (seq 0 (c1 p1e)))) in *.
    assert (Ev : end_value p1e p2e = a).
    { rewrite end_value_split. replace p2e with 0%nat by lia. cbn [Nat.min]. cbn [seq map cmin_list].
      rewrite !Nat.sub_0_r, !cmin_inf_r. unfold a, c1, gcol. cbn [seq map cmin_list]. rewrite Nat.sub_0_r. rewrite cmin_comm. apply cmin_idem_l. }
    assert (Eif : (if cltb a Inf then a else Inf) = a).
    { destruct (cltb a Inf) eqn:Ec; [reflexivity|]. destruct a; [discriminate Ec|reflexivity]. }
    rewrite Eif in EA, Hend.
    exists wps', ie, je. rewrite Ev. split.
    + rewrite <- EA. unfold k_wtail, after_scans. cbv zeta. cbn [andb].
      destruct (Z.eqb_spec (Z.of_nat p1e) 0); [contradiction|]. destruct (Z.eqb_spec (Z.of_nat p2e) 0); [|contradiction]. cbn [andb negb].
      rewrite E. fold a. reflexivity.
    + split; [exact Hl|]. split; [exact Hie|]. split; [exact Hje|]. split; [|exact Hm].
      intros Hne. destruct (Hend Hne) as [HM Hc]. split; [exact HM|]. exact (Hcands ie je _ _ (le_n _) (le_n _) Hc).
  - (* both *)
    destruct (row_scan2 p1e l1) as (relr & b & E & HPr).
    destruct (col_scan2 p2e l2) as (relc & b' & E' & HPc).
    destruct (after_scans_spec keep _ _ relr relc (c1 p1e) (c2 p2e) ltac:(unfold c1; lia) ltac:(unfold c2; lia) HPr HPc)
      as (wps' & ie & je & EA & Hl & Hie & Hje & Hend & Hm).
    set (a := cmin_list (map gcol (seq 0 (c1 p1e)))) in *. set (c := cmin_list (map grow (seq 0 (c2 p2e)))) in *.
    assert (Ev : end_value p1e p2e = (if cltb a c then a else c)).
    { rewrite end_value_split. fold (c1 p1e) (c2 p2e). change (fun k : nat => M (l1n - k) l2n) with gcol. change (fun k : nat => M l1n (l2n - k)) with grow.
      fold a c. rewrite cmin_if. apply cmin_comm. }
    exists wps', ie, je. rewrite Ev. split.
    + rewrite <- EA. unfold k_wtail, after_scans. cbv zeta. cbn [andb].
      destruct (Z.eqb_spec (Z.of_nat p1e) 0); [contradiction|]. destruct (Z.eqb_spec (Z.of_nat p2e) 0); [contradiction|]. cbn [andb negb].
      rewrite E, E'. reflexivity.
    + split; [exact Hl|]. split; [exact Hie|]. split; [exact Hje|]. split; [|exact Hm].
      intros Hne. destruct (Hend Hne) as [HM Hc]. split; [exact HM|]. exact (Hcands ie je _ _ (le_n _) (le_n _) Hc).
Qed.
End Marks.
