(* dtw.warping_path as written, on the matrix that dtw.warping_paths as written
   produces (PyWpsProofs: that matrix is the specification matrix Mfun):
   the start cell found by _relaxed_end holds the distance warping_paths returned,
   that distance is the specification's dtw_value, and the path traced back from that
   cell costs exactly that distance. *)
From Coq Require Import ZArith Bool List Lia.
From DV Require Import Cost Grid Dtw DtwSpec Traceback RelaxedEnd.
Import ListNotations.
Open Scope nat_scope.

Lemma cmin_list_glb l v : (forall x, In x l -> cle v x) -> cle v (cmin_list l).
Proof.
  induction l as [|x t IH]; intros H; cbn [cmin_list]; [apply cle_inf|].
  apply cmin_glb; [apply H; left; reflexivity|apply IH; intros y Hy; apply H; right; exact Hy].
Qed.

Section Link.
Variable u : usettings.
Variables s1 s2 : list point.
Hypothesis Hr : 1 <= sr s1.
Hypothesis Hc : 1 <= sc s2.

Local Notation val := (Mfun u s1 s2).
Local Notation r := (sr s1).
Local Notation c := (sc s2).
Local Notation rvalue := (value val r c (psi_1e u) (psi_2e u)).
Local Notation rchosen := (chosen val r c (psi_1e u) (psi_2e u)).
Local Notation rend := (relaxed_end val r c (psi_1e u) (psi_2e u)).

Lemma value_le_cands : forall ij, In ij (end_cands u s1 s2) -> cle rvalue (val (fst ij) (snd ij)).
Proof.
  intros ij Hin. unfold end_cands in Hin. rewrite in_app_iff, !in_map_iff in Hin.
  destruct (relaxed (psi_1e u) (psi_2e u)) eqn:Hrel.
  - destruct (value_minimal val r c Hr Hc (psi_1e u) (psi_2e u) Hrel) as [Hcol Hrow].
    unfold relaxed in Hrel. apply negb_true_iff, andb_false_iff in Hrel.
    destruct Hin as [[k [<- Hk]]|[k [<- Hk]]]; apply in_seq in Hk; cbn [fst snd].
    + destruct (Nat.eq_dec (psi_1e u) 0) as [E|E].
      * (* only the corner, which is also the first candidate of the last row *)
        assert (k = 0) by (rewrite E in Hk; cbn in Hk; lia). subst k. rewrite Nat.sub_0_r.
        destruct Hrel as [H|H]; [apply Nat.eqb_neq in H; contradiction|]. apply Nat.eqb_neq in H.
        specialize (Hrow 0 H ltac:(lia)). rewrite Nat.sub_0_r in Hrow. exact Hrow.
      * apply Hcol; [exact E|unfold nr; lia].
    + destruct (Nat.eq_dec (psi_2e u) 0) as [E|E].
      * assert (k = 0) by (rewrite E in Hk; cbn in Hk; lia). subst k. rewrite Nat.sub_0_r.
        destruct Hrel as [H|H]; [|apply Nat.eqb_neq in H; contradiction]. apply Nat.eqb_neq in H.
        specialize (Hcol 0 H ltac:(lia)). rewrite Nat.sub_0_r in Hcol. exact Hcol.
      * apply Hrow; [exact E|unfold nc; lia].
  - unfold value. rewrite Hrel. unfold relaxed in Hrel. apply negb_false_iff, andb_true_iff in Hrel.
    destruct Hrel as [H1 H2]. apply Nat.eqb_eq in H1, H2. rewrite H1, H2 in Hin. cbn [Nat.min seq map] in Hin.
    destruct Hin as [[k [<- [<-|[]]]]|[k [<- [<-|[]]]]]; cbn [fst snd]; rewrite Nat.sub_0_r; apply cle_refl.
Qed.

Lemma chosen_in_cands : rvalue <> Inf -> In rchosen (end_cands u s1 s2).
Proof.
  intros Hfin. pose proof (chosen_admissible val r c Hr Hc (psi_1e u) (psi_2e u) Hfin) as H.
  destruct rchosen as [a b]. cbn [fst snd] in H.
  unfold end_cands; rewrite in_app_iff, !in_map_iff. destruct H as [[H1 H2]|[H1 H2]]; [left|right].
  - exists (r - a). split; [f_equal; lia|apply in_seq; lia].
  - exists (c - b). split; [f_equal; lia|apply in_seq; lia].
Qed.

(* the value warping_paths returns (before the max_dist test) is the specification's distance *)
Theorem relaxed_value_is_dtw_value : rvalue = dtw_value u s1 s2.
Proof.
  rewrite dtw_value_Mfun. apply cle_antisym.
  - apply cmin_list_glb. intros x Hx. apply in_map_iff in Hx. destruct Hx as [ij [<- Hin]]. apply value_le_cands; exact Hin.
  - destruct rvalue eqn:E; [|apply cle_inf]. rewrite <- E.
    assert (Hfin : rvalue <> Inf) by (rewrite E; discriminate).
    rewrite <- (chosen_holds_value val r c (psi_1e u) (psi_2e u) Hfin).
    apply cmin_list_le. apply in_map_iff. exists rchosen. split; [reflexivity|apply chosen_in_cands; exact Hfin].
Qed.

(* warping_path: trace back from _relaxed_end; the cost of that path is the distance *)
Theorem warping_path_cost_is_distance : dtw_value u s1 s2 <> Inf ->
  let ij := rend in
  In ij (end_cands u s1 s2) /\
  wpath_cost u s1 s2 (fst ij) (snd ij) (tb val (adj_penalty u) (fst ij + snd ij) (fst ij) (snd ij)) = Some (dtw_value u s1 s2).
Proof.
  intros Hfin. rewrite <- relaxed_value_is_dtw_value in Hfin |- *. cbv zeta.
  rewrite (relaxed_end_is_chosen val r c Hr Hc (psi_1e u) (psi_2e u) Hfin).
  split; [apply chosen_in_cands; exact Hfin|].
  rewrite <- (chosen_holds_value val r c (psi_1e u) (psi_2e u) Hfin). apply tb_cost. lia.
Qed.
End Link.

(* executable: dtw.warping_path = best_path from _relaxed_end of the marked matrix *)
Definition warping_path_model (u : usettings) (s1 s2 : list point) : (nat * nat) * list (nat * nat) :=
  let m := wps_matrix u s1 s2 in
  let ij := relaxed_end (mget m) (sr s1) (sc s2) (psi_1e u) (psi_2e u) in
  (ij, best_path_model m (adj_penalty u) (fst ij) (snd ij)).

(* executable: the cells dtw.warping_paths (psi_neg) marks with -1 *)
Definition marks_model (u : usettings) (s1 s2 : list point) : list (nat * nat) :=
  let m := wps_matrix u s1 s2 in
  let r := sr s1 in let c := sc s2 in
  flat_map (fun i => flat_map (fun j => if marked (mget m) r c (psi_1e u) (psi_2e u) i j then [(i, j)] else []) (seq 0 (S c)))
           (seq 0 (S r)).
