(* Container independence at the C boundary.  A NumPy view is (buffer, offset,
   stride, length); its logical content is buf[off + i*stride].  The C engine
   receives &view[0] and reads n consecutive doubles.  util_numpy.verify_np_array
   copies a non-contiguous view into a fresh contiguous buffer. *)
From Coq Require Import ZArith List Lia Bool.
From DV Require Import Prelude.
Import ListNotations.
Open Scope Z_scope.

Record view := { v_buf : list Z; v_off : nat; v_stride : nat; v_len : nat }.

Definition logical (v : view) : list Z :=
  map (fun i => nth (v_off v + i * v_stride v) (v_buf v) 0) (seq 0 (v_len v)).
(* what the C routine sees: n consecutive elements starting at the view's first element *)
Definition c_reads (v : view) : list Z :=
  map (fun i => nth (v_off v + i) (v_buf v) 0) (seq 0 (v_len v)).

(* verify_np_array: "if not v.flags.c_contiguous: v = v.copy(order='C')" *)
Definition verify (v : view) : view :=
  if (v_stride v =? 1)%nat then v
  else {| v_buf := logical v; v_off := 0; v_stride := 1; v_len := v_len v |}.

Lemma logical_length v : length (logical v) = v_len v.
Proof. unfold logical. rewrite map_length, seq_length. reflexivity. Qed.

Lemma map_nth_seq (l : list Z) : map (fun i => nth i l 0) (seq 0 (length l)) = l.
Proof.
  induction l as [|x t IH] using rev_ind; [reflexivity|].
  rewrite app_length. simpl length. rewrite Nat.add_1_r. rewrite seq_S. rewrite map_app. simpl.
  rewrite app_nth2 by lia. rewrite Nat.sub_diag. simpl. f_equal.
  rewrite <- IH at 2. apply map_ext_in. intros i Hi. apply in_seq in Hi. rewrite app_nth1 by lia. reflexivity.
Qed.

Theorem guarded_read_is_logical v : c_reads (verify v) = logical v.
Proof.
  unfold verify. destruct (Nat.eqb_spec (v_stride v) 1) as [E|E].
  - unfold c_reads, logical. rewrite E. apply map_ext. intros i. f_equal. lia.
  - unfold c_reads. cbn [v_buf v_off v_len]. rewrite <- (logical_length v) at 1.
    rewrite <- (map_nth_seq (logical v)) at 2. apply map_ext. intros i. reflexivity.
Qed.

Theorem verify_preserves_content v : logical (verify v) = logical v.
Proof.
  unfold verify. destruct (Nat.eqb_spec (v_stride v) 1) as [E|E]; [reflexivity|].
  unfold logical at 1. cbn [v_buf v_off v_stride v_len]. rewrite <- (logical_length v) at 1.
  rewrite <- (map_nth_seq (logical v)) at 2. apply map_ext. intros i. f_equal. lia.
Qed.

(* without the guard a strided view is misread *)
Theorem unguarded_read_refuted : exists v, c_reads v <> logical v.
Proof.
  exists {| v_buf := [10; 11; 12; 13]; v_off := 0; v_stride := 2; v_len := 2 |}.
  vm_compute. discriminate.
Qed.
