(* Consequences of the optimality theorem used by several properties. *)
From Coq Require Import ZArith Bool List Lia.
From DV Require Import Prelude Cost Grid Dtw DtwSpec.
Import ListNotations.
Open Scope Z_scope.

Lemma wps_cell_lower u s1 s2 i j p v :
  (i <= sr s1)%nat -> (j <= sc s2)%nat ->
  wpath_cost u s1 s2 i j p = Some v -> cle (mget (wps_matrix u s1 s2) i j) v.
Proof.
  intros Hi Hj H. rewrite wps_matrix_Mfun by auto. eapply Mf_lower. exact H.
Qed.

Lemma wps_cell_attained u s1 s2 i j :
  (i <= sr s1)%nat -> (j <= sc s2)%nat ->
  exists p, wpath_cost u s1 s2 i j p = Some (mget (wps_matrix u s1 s2) i j).
Proof.
  intros Hi Hj. rewrite wps_matrix_Mfun by auto.
  destruct (Mf_attained (cell u s1 s2) (adj_penalty u) (psi_1b u) (psi_2b u) i j) as [p [Hp _]].
  exists p. exact Hp.
Qed.

Lemma matrix_row_length d pen p1b p2b r c i : (i <= r)%nat ->
  length (nth i (matrix d pen p1b p2b r c) []) = S c.
Proof.
  intros Hi. unfold matrix.
  assert (Hl : length (row0 p2b c) = S c) by (unfold row0; rewrite map_length, seq_length; auto).
  destruct i as [|i]; [exact Hl|]. cbn [nth].
  assert (G : forall n k prev a, length prev = S c -> (a < n)%nat ->
              length (nth a (rows_from d pen p1b k n prev) []) = S c).
  { induction n as [|n IH]; intros k prev a Hp Ha; [lia|].
    cbn [rows_from].
    assert (Hn : length (next_row d pen p1b k prev) = S c).
    { destruct prev as [|p0 tl]; [discriminate|]. cbn [next_row length]. rewrite scan_row_length. simpl in Hp. lia. }
    destruct a as [|a]; cbn [nth]; [exact Hn|]. apply IH; [exact Hn|lia]. }
  apply G; [exact Hl|lia].
Qed.

Lemma wps_matrix_shape u s1 s2 :
  length (wps_matrix u s1 s2) = S (sr s1) /\
  forall i, (i <= sr s1)%nat -> length (nth i (wps_matrix u s1 s2) nil) = S (sc s2).
Proof.
  split; [apply matrix_length|]. intros i Hi. apply matrix_row_length. exact Hi.
Qed.

Lemma cadd_inf_l' a : cadd Inf a = Inf. Proof. reflexivity. Qed.

Lemma wps_out_of_band u s1 s2 i j :
  (i < sr s1)%nat -> (j < sc s2)%nat ->
  in_band (sr s1) (sc s2) (sw u s1 s2) i j = false ->
  mget (wps_matrix u s1 s2) (S i) (S j) = Inf.
Proof.
  intros Hi Hj Hb. rewrite wps_matrix_Mfun by lia.
  unfold Mfun. rewrite Mf_S_S. unfold code_cell, cell. rewrite Hb. reflexivity.
Qed.
