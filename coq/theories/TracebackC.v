(* Tracing back with ANY rule that picks a minimal predecessor, and the rule of the C engine.

   dtw.best_path (Traceback.v) takes the first minimum of [diag, up + pen, left + pen].  The C routines
   dtw_best_path / dtw_best_path_customstart decide
       if (diag <= left + pen && diag <= up + pen) diagonal; else if (left <= up) left; else up;
   (condition texts checked by the translator: decision kind "le_pen" in Gen_ctrace.v).  Both are
   instances of an admissible rule -- one under which the value of a cell is its point cost plus the value
   (plus penalty) of the predecessor the rule picks -- and for every admissible rule the traced path costs
   exactly the value of the start cell.  Engines may differ in which optimal path they return, not in its cost. *)
From Coq Require Import ZArith Bool List Lia.
From DV Require Import Prelude Cost Grid Dtw DtwSpec DtwProps Traceback.
Import ListNotations.
Open Scope Z_scope.

Lemma cfl a b : cleb a b = false -> cle b a.
Proof. intros H. apply cleb_false_lt in H. tauto. Qed.

Section GTB.
Variable d : nat -> nat -> cost.
Variable pen : Z.
Variables p1b p2b : nat.
Local Notation M := (Mf d pen p1b p2b).

Definition admissible (pk : nat -> nat -> step) : Prop :=
  forall i j, M (S i) (S j) =
    match pk i j with
    | SD => cadd (M i j) (d i j)
    | SU => cadd (M i (S j)) (cadd (Fin pen) (d i j))
    | SL => cadd (M (S i) j) (cadd (Fin pen) (d i j))
    end.

Fixpoint gtb (pk : nat -> nat -> step) (fuel i j : nat) : list step :=
  match fuel with
  | O => []
  | S f =>
    match i, j with
    | S i', S j' =>
      let s := pk i' j' in
      s :: match s with SD => gtb pk f i' j' | SU => gtb pk f i' (S j') | SL => gtb pk f (S i') j' end
    | _, _ => []
    end
  end.

Theorem gtb_cost pk : admissible pk -> forall fuel i j, (i + j <= fuel)%nat ->
  path_cost d pen p1b p2b i j (gtb pk fuel i j) = Some (M i j).
Proof.
  intros Hpk. induction fuel as [|f IH]; intros i j H.
  - assert (i = 0%nat) by lia. assert (j = 0%nat) by lia. subst. reflexivity.
  - destruct i as [|i]; [reflexivity|]. destruct j as [|j]; [reflexivity|].
    cbn [gtb]. unfold path_cost. cbn [pcost]. rewrite (Hpk i j).
    destruct (pk i j); fold (path_cost d pen p1b p2b); rewrite IH by lia; reflexivity.
Qed.

Theorem gtb_cells_finite pk : admissible pk -> forall fuel i j, (i + j <= fuel)%nat -> M i j <> Inf ->
  forall ab, In ab (pcells i j (gtb pk fuel i j)) -> M (fst ab) (snd ab) <> Inf.
Proof.
  intros Hpk. induction fuel as [|f IH]; intros i j H Hfin ab Hin.
  - assert (i = 0%nat) by lia. assert (j = 0%nat) by lia. subst. simpl in Hin.
    destruct Hin as [<-|[]]. exact Hfin.
  - destruct i as [|i]; [simpl in Hin; destruct Hin as [<-|[]]; exact Hfin|].
    destruct j as [|j]; [simpl in Hin; destruct Hin as [<-|[]]; exact Hfin|].
    cbn [gtb pcells pred] in Hin. destruct Hin as [<-|Hin]; [exact Hfin|].
    pose proof (Hpk i j) as Hv.
    destruct (pk i j).
    + apply (IH i j); [lia| |exact Hin]. intros E. apply Hfin. rewrite Hv, E. reflexivity.
    + apply (IH i (S j)); [lia| |exact Hin]. intros E. apply Hfin. rewrite Hv, E. reflexivity.
    + apply (IH (S i) j); [lia| |exact Hin]. intros E. apply Hfin. rewrite Hv, E. reflexivity.
Qed.

(* the Python rule is admissible *)
Lemma pick_admissible : admissible (pick M pen).
Proof. intros i j. apply pick_value. Qed.

(* the C rule *)
Definition cpick (i j : nat) : step :=
  let a := M i j in let l := M (S i) j in let u := M i (S j) in
  if cleb a (cadd l (Fin pen)) && cleb a (cadd u (Fin pen)) then SD
  else if cleb l u then SL else SU.

Lemma min3_a a b c : cle a b -> cle a c -> cmin3 a b c = a.
Proof. intros. apply min3_is; auto using cle_refl. Qed.
Lemma min3_b a b c : cle b a -> cle b c -> cmin3 a b c = b.
Proof. intros. apply min3_is; auto using cle_refl. Qed.
Lemma min3_c a b c : cle c a -> cle c b -> cmin3 a b c = c.
Proof. intros. apply min3_is; auto using cle_refl. Qed.

Lemma cpick_admissible : admissible cpick.
Proof.
  intros i j. rewrite Mf_S_S. unfold code_cell, cpick.
  set (a := M i j). set (l := M (S i) j). set (u := M i (S j)).
  set (b := cadd u (Fin pen)). set (c := cadd l (Fin pen)).
  assert (Eb : cadd u (cadd (Fin pen) (d i j)) = cadd (d i j) b)
    by (unfold b; rewrite cadd_assoc; apply cadd_comm).
  assert (Ec : cadd l (cadd (Fin pen) (d i j)) = cadd (d i j) c)
    by (unfold c; rewrite cadd_assoc; apply cadd_comm).
  assert (Hlu_c : cle l u -> cle c b) by (intros H; apply cadd_mono_l; exact H).
  assert (Hul_c : cle u l -> cle b c) by (intros H; apply cadd_mono_l; exact H).
  destruct (cleb a c) eqn:Hac; destruct (cleb a b) eqn:Hab; cbn [andb].
  - rewrite (min3_a a b c Hab Hac). apply cadd_comm.
  - apply cfl in Hab. destruct (cleb l u) eqn:Hlu.
    + rewrite Ec, (min3_c a b c); [reflexivity| |apply Hlu_c; exact Hlu]. eapply cle_trans; [apply Hlu_c; exact Hlu|exact Hab].
    + apply cfl in Hlu. rewrite Eb, (min3_b a b c); [reflexivity|exact Hab|apply Hul_c; exact Hlu].
  - apply cfl in Hac. destruct (cleb l u) eqn:Hlu.
    + rewrite Ec, (min3_c a b c); [reflexivity|exact Hac|apply Hlu_c; exact Hlu].
    + apply cfl in Hlu. rewrite Eb, (min3_b a b c); [reflexivity| |apply Hul_c; exact Hlu].
      eapply cle_trans; [apply Hul_c; exact Hlu|exact Hac].
  - apply cfl in Hac. apply cfl in Hab. destruct (cleb l u) eqn:Hlu.
    + rewrite Ec, (min3_c a b c); [reflexivity|exact Hac|apply Hlu_c; exact Hlu].
    + apply cfl in Hlu. rewrite Eb, (min3_b a b c); [reflexivity|exact Hab|apply Hul_c; exact Hlu].
Qed.

Theorem c_traceback_cost : forall fuel i j, (i + j <= fuel)%nat ->
  path_cost d pen p1b p2b i j (gtb cpick fuel i j) = Some (M i j).
Proof. apply gtb_cost. exact cpick_admissible. Qed.
End GTB.
