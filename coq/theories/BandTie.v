(* Tie by regeneration: the band / buffer-geometry expressions translated from
   /repo's current dtw.py are the ones the models and theorems use.  All by lia
   over the generated terms, so an algebraically equal rewrite in the source
   still passes and an off-by-one does not. *)
From Coq Require Import ZArith Lia.
From DV Require Import Dtw.
From DVGen Require Import Gen_dtw.
Open Scope Z_scope.

Lemma tie_wps_j_start r c w i : py_wps_j_start r c w i = band_lo r c w i.
Proof. unfold py_wps_j_start, band_lo. lia. Qed.
Lemma tie_wps_j_end r c w i : py_wps_j_end r c w i = band_hi r c w i.
Proof. unfold py_wps_j_end, band_hi. lia. Qed.
Lemma tie_dist_j_start r c w i : py_dist_j_start r c w i = band_lo r c w i.
Proof. unfold py_dist_j_start, band_lo. lia. Qed.
Lemma tie_dist_j_end r c w i : py_dist_j_end r c w i = band_hi r c w i.
Proof. unfold py_dist_j_end, band_hi. lia. Qed.
Lemma tie_aff_j_start r c w i : py_aff_j_start r c w i = band_lo r c w i.
Proof. unfold py_aff_j_start, band_lo. lia. Qed.
Lemma tie_aff_j_end r c w i : py_aff_j_end r c w i = band_hi r c w i.
Proof. unfold py_aff_j_end, band_hi. lia. Qed.
Lemma tie_aff_triu i js : py_aff_j_start_triu i js = Z.max i js.
Proof. unfold py_aff_j_start_triu. lia. Qed.
(* the column holding the final value is the last one for every window >= 1 *)
Lemma tie_wps_ic c w : 1 <= w -> py_wps_ic c w = c.
Proof. unfold py_wps_ic. lia. Qed.

(* Rolling buffer of dtw.distance: the per-row offset is the band start, and
   every cell the recurrence touches lies inside the 2*length buffer. *)
Lemma tie_dist_skip r c w i : py_dist_skip r c w i = band_lo r c w i.
Proof. unfold py_dist_skip, band_lo. lia. Qed.

Definition eff_skip (r c w i : Z) : Z :=
  if py_dist_length r c w =? c + 1 then 0 else py_dist_skip r c w i.

Lemma dist_write_in_buffer r c w i j :
  1 <= w -> 1 <= r -> 1 <= c -> 0 <= i < r ->
  band_lo r c w i <= j < band_hi r c w i ->
  0 <= j + 1 - eff_skip r c w i < py_dist_length r c w.
Proof.
  unfold eff_skip, py_dist_skip, py_dist_length, band_lo, band_hi. intros.
  destruct (Z.eqb_spec (Z.min (c + 1) (Z.abs (r - c) + 2 * (w - 1) + 1 + 1 + 1)) (c + 1)); lia.
Qed.

Lemma dist_read_prev_in_buffer r c w i j :
  1 <= w -> 1 <= r -> 1 <= c -> 1 <= i < r ->
  band_lo r c w i <= j < band_hi r c w i ->
  0 <= j - eff_skip r c w (i - 1) /\ j + 1 - eff_skip r c w (i - 1) < py_dist_length r c w + 1.
Proof.
  unfold eff_skip, py_dist_skip, py_dist_length, band_lo, band_hi. intros.
  destruct (Z.eqb_spec (Z.min (c + 1) (Z.abs (r - c) + 2 * (w - 1) + 1 + 1 + 1)) (c + 1)); lia.
Qed.
