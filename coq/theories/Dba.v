(* DTW Barycenter Averaging, one update step.  The step replaces position i of
   the average by the arithmetic mean of the points A_i that the optimal warping
   paths of the selected series associate with i.  Over the reals:
   the mean lies in the range of its points, it minimises the sum of squared
   deviations, hence the association cost (= sum of the squared DTW costs along
   the old optimal paths) does not increase -- and DTW being a minimum over
   paths, neither does the sum of squared DTW distances; cost 0 is a fixed point. *)
From Coq Require Import Reals Lra List Lia.
Import ListNotations.
Open Scope R_scope.

Fixpoint rsum (l : list R) : R := match l with [] => 0 | x :: t => x + rsum t end.
Definition mean (l : list R) : R := rsum l / INR (length l).
(* sum of squared deviations of the points of l from a *)
Fixpoint sqdev (a : R) (l : list R) : R := match l with [] => 0 | x :: t => (a - x) * (a - x) + sqdev a t end.

Lemma INR_len_pos (l : list R) : l <> [] -> 0 < INR (length l).
Proof. destruct l; [congruence|]. intros _. apply lt_0_INR. simpl. lia. Qed.

Lemma sqdev_expand a l : sqdev a l = INR (length l) * a * a - 2 * a * rsum l + rsum (map (fun x => x * x) l).
Proof.
  induction l as [|x t IH]; [simpl; lra|].
  cbn [sqdev length map rsum]. rewrite IH. rewrite S_INR. lra.
Qed.

(* Huygens: deviations from a = deviations from the mean + n (a - mean)^2 *)
Lemma sqdev_mean_shift a l : l <> [] ->
  sqdev a l = sqdev (mean l) l + INR (length l) * (a - mean l) * (a - mean l).
Proof.
  intros Hne. pose proof (INR_len_pos l Hne) as Hn. rewrite !sqdev_expand.
  assert (E : rsum l = INR (length l) * mean l) by (unfold mean; field; apply Rgt_not_eq; exact Hn).
  rewrite E. ring.
Qed.

Theorem mean_minimises a l : l <> [] -> sqdev (mean l) l <= sqdev a l.
Proof.
  intros Hne. rewrite (sqdev_mean_shift a l Hne). pose proof (INR_len_pos l Hne).
  assert (0 <= INR (length l) * (a - mean l) * (a - mean l)).
  { replace (INR (length l) * (a - mean l) * (a - mean l)) with (INR (length l) * ((a - mean l) * (a - mean l))) by ring.
    apply Rmult_le_pos; [lra|]. apply Rle_0_sqr. }
  lra.
Qed.

Lemma rsum_bounds lo hi l : (forall x, In x l -> lo <= x <= hi) -> INR (length l) * lo <= rsum l <= INR (length l) * hi.
Proof.
  induction l as [|x t IH]; intros H; [simpl; lra|].
  cbn [rsum length]. rewrite S_INR.
  assert (Hx : lo <= x <= hi) by (apply H; left; reflexivity).
  assert (Ht := IH (fun y Hy => H y (or_intror Hy))). lra.
Qed.

Theorem mean_in_range lo hi l : l <> [] -> (forall x, In x l -> lo <= x <= hi) -> lo <= mean l <= hi.
Proof.
  intros Hne H. pose proof (INR_len_pos l Hne) as Hn. pose proof (rsum_bounds lo hi l H) as [H1 H2].
  unfold mean. split.
  - apply Rmult_le_reg_r with (r := INR (length l)); [exact Hn|]. unfold Rdiv. rewrite Rmult_assoc, Rinv_l by lra. lra.
  - apply Rmult_le_reg_r with (r := INR (length l)); [exact Hn|]. unfold Rdiv. rewrite Rmult_assoc, Rinv_l by lra. lra.
Qed.

(* ------------------------------------------------------------ the association table *)
(* A : for every position of the average, the points associated with it *)
Fixpoint assoc_cost (c : list R) (A : list (list R)) : R :=
  match c, A with
  | ci :: c', Ai :: A' => sqdev ci Ai + assoc_cost c' A'
  | _, _ => 0
  end.
Definition dba_step (A : list (list R)) : list R := map mean A.

Theorem dba_step_decreases_assoc_cost : forall c A, length c = length A -> (forall Ai, In Ai A -> Ai <> []) ->
  assoc_cost (dba_step A) A <= assoc_cost c A.
Proof.
  induction c as [|ci c IH]; intros A Hl Hne; destruct A as [|Ai A]; try (simpl in Hl; discriminate);
    unfold dba_step; cbn [map assoc_cost]; try lra.
  assert (H1 : sqdev (mean Ai) Ai <= sqdev ci Ai) by (apply mean_minimises; apply Hne; left; reflexivity).
  assert (H2 := IH A ltac:(simpl in Hl; lia) (fun X HX => Hne X (or_intror HX))). unfold dba_step in H2. lra.
Qed.

(* building the table exactly as the code does: for (i, j) in path: assoctab[i].append(seq[j]) *)
Fixpoint assoc_add (A : list (list R)) (i : nat) (v : R) : list (list R) :=
  match A, i with
  | [], _ => []
  | Ai :: A', O => (Ai ++ [v]) :: A'
  | Ai :: A', S i' => Ai :: assoc_add A' i' v
  end.

Lemma sqdev_app a l1 l2 : sqdev a (l1 ++ l2) = sqdev a l1 + sqdev a l2.
Proof. induction l1 as [|x t IH]; simpl; [lra|]. rewrite IH. lra. Qed.

(* regrouping: adding one aligned pair (i, v) adds exactly its squared difference *)
Lemma assoc_cost_add : forall c A i v, length c = length A -> (i < length c)%nat ->
  assoc_cost c (assoc_add A i v) = assoc_cost c A + (nth i c 0 - v) * (nth i c 0 - v).
Proof.
  induction c as [|ci c IH]; intros A i v Hl Hi; simpl in Hi; [lia|].
  destruct A as [|Ai A]; [discriminate|]. destruct i as [|i]; simpl.
  - rewrite sqdev_app. simpl. lra.
  - rewrite IH by (simpl in Hl; lia). lra.
Qed.

(* sum of the squared costs of a list of aligned pairs (position, value) *)
Fixpoint pairs_cost (c : list R) (ps : list (nat * R)) : R :=
  match ps with [] => 0 | (i, v) :: t => (nth i c 0 - v) * (nth i c 0 - v) + pairs_cost c t end.
Definition build (t : nat) (ps : list (nat * R)) : list (list R) :=
  fold_left (fun A iv => assoc_add A (fst iv) (snd iv)) ps (repeat [] t).

Lemma assoc_add_length A i v : length (assoc_add A i v) = length A.
Proof. revert i; induction A as [|Ai A IH]; intros i; simpl; [reflexivity|]. destruct i; simpl; [reflexivity|]. rewrite IH. reflexivity. Qed.

Lemma assoc_cost_nil c t : assoc_cost c (repeat [] t) = 0.
Proof. revert t; induction c as [|ci c IH]; intros t; destruct t; simpl; try lra. rewrite IH. lra. Qed.

Theorem assoc_cost_is_sum_over_aligned_pairs c ps : (forall iv, In iv ps -> (fst iv < length c)%nat) ->
  assoc_cost c (build (length c) ps) = pairs_cost c ps.
Proof.
  intros Hin. unfold build.
  assert (G : forall ps A, length c = length A -> (forall iv, In iv ps -> (fst iv < length c)%nat) ->
              assoc_cost c (fold_left (fun A iv => assoc_add A (fst iv) (snd iv)) ps A) = assoc_cost c A + pairs_cost c ps).
  { clear. induction ps as [|[i v] ps IH]; intros A Hl Hin; simpl; [lra|].
    rewrite IH; [|rewrite assoc_add_length; exact Hl|intros; apply Hin; right; assumption].
    rewrite assoc_cost_add; [lra|exact Hl|apply (Hin (i, v)); left; reflexivity]. }
  rewrite G; [rewrite assoc_cost_nil; lra|rewrite repeat_length; reflexivity|exact Hin].
Qed.

(* identical series: cost 0 along the paths means every associated point equals the centre: fixed point *)
Lemma sq_nonneg x : 0 <= x * x.
Proof. apply Rle_0_sqr. Qed.

Lemma sqdev_nonneg b l : 0 <= sqdev b l.
Proof. induction l as [|z l IH]; simpl; [lra|]. pose proof (sq_nonneg (b - z)). lra. Qed.

Lemma sqdev_zero a l : sqdev a l = 0 -> forall x, In x l -> x = a.
Proof.
  induction l as [|y t IH]; intros H x Hx; [destruct Hx|]. simpl in H.
  pose proof (sq_nonneg (a - y)). pose proof (sqdev_nonneg a t).
  destruct Hx as [<-|Hx].
  - assert (E : (a - y) * (a - y) = 0) by lra. apply Rmult_integral in E. destruct E; lra.
  - apply IH; [lra|exact Hx].
Qed.

Lemma mean_const a l : l <> [] -> (forall x, In x l -> x = a) -> mean l = a.
Proof.
  intros Hne H. pose proof (INR_len_pos l Hne). unfold mean.
  assert (E : rsum l = INR (length l) * a).
  { clear Hne H0. induction l as [|x t IH]; [simpl; lra|]. cbn [rsum length]. rewrite S_INR.
    rewrite (H x (or_introl eq_refl)). rewrite IH by (intros; apply H; right; assumption). lra. }
  rewrite E. field. lra.
Qed.

Lemma assoc_cost_nonneg : forall c A, 0 <= assoc_cost c A.
Proof.
  induction c as [|ci c IH]; intros A; destruct A as [|Ai A]; simpl; try lra.
  pose proof (sqdev_nonneg ci Ai). pose proof (IH A). lra.
Qed.

Theorem zero_cost_is_fixed_point : forall c A, length c = length A -> (forall Ai, In Ai A -> Ai <> []) ->
  assoc_cost c A = 0 -> dba_step A = c.
Proof.
  induction c as [|ci c IH]; intros A Hl Hne H0; destruct A as [|Ai A]; try (simpl in Hl; discriminate); [reflexivity|].
  cbn [assoc_cost] in H0. unfold dba_step. cbn [map].
  pose proof (sqdev_nonneg ci Ai). pose proof (assoc_cost_nonneg c A).
  f_equal.
  - apply mean_const; [apply Hne; left; reflexivity|apply sqdev_zero; lra].
  - apply IH; [simpl in Hl; lia|intros; apply Hne; right; assumption|lra].
Qed.
