(* Distance-matrix bookkeeping: which (row, column) pairs a block selects, in
   which order, how many, and where a pair lives in the condensed vector.
   The functions under study are the ones regenerated from dtw.py
   (DVGen.Gen_matrix); `pairs` is the short specification. *)
From Coq Require Import ZArith Bool List Lia.
From DV Require Import Prelude.
From DVGen Require Import Gen_matrix.
Import ListNotations.
Open Scope Z_scope.

(* block: None, or ((rb,re),(cb,ce)) with the upper-triangle flag *)
Record block := { b_some : bool; b_rows : Z * Z; b_cols : Z * Z; b_notriu : bool }.
Definition no_block : block := {| b_some := false; b_rows := (0, 0); b_cols := (0, 0); b_notriu := false |}.

Definition row_cols (n : Z) (blk : block) (r : Z) : list Z :=
  if negb (b_some blk) then zrange (r + 1) n
  else if b_notriu blk then zrange (fst (b_cols blk)) (Z.min n (snd (b_cols blk)))
  else zrange (Z.max (r + 1) (fst (b_cols blk))) (Z.min n (snd (b_cols blk))).

Definition block_rows (n : Z) (blk : block) : list Z :=
  if negb (b_some blk) then zrange 0 n else zrange (fst (b_rows blk)) (snd (b_rows blk)).

(* the selected pairs in row-major order *)
Definition pairs (n : Z) (blk : block) : list (Z * Z) :=
  flat_map (fun r => map (fun c => (r, c)) (row_cols n blk r)) (block_rows n blk).

Definition valid_block (n : Z) (blk : block) : Prop :=
  b_some blk = false \/
  (0 <= fst (b_rows blk) /\ fst (b_rows blk) <= snd (b_rows blk) <= n /\
   0 <= fst (b_cols blk) /\ fst (b_cols blk) <= snd (b_cols blk) <= n).

(* the generated functions, applied to a block record *)
Definition gen_length (n : Z) (blk : block) : Z :=
  py_distance_matrix_length (b_some blk) (fst (b_rows blk)) (snd (b_rows blk)) (fst (b_cols blk)) (snd (b_cols blk))
                            (b_notriu blk) n.
Definition gen_matrix {A} (dflt : A) (dist : Z -> Z -> A) (n : Z) (blk : block) : list A :=
  py_distance_matrix_python A dflt dist (b_some blk) (b_rows blk, b_cols blk) (b_notriu blk) n.
