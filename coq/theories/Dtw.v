(* DTW: executable full-matrix model (the accumulated-cost matrix as
   dtw.warping_paths builds it, without early abandoning) and its meaning as a
   minimum over warping paths.  The band limits are the definitions regenerated
   from /repo (DVGen.Gen_dtw). *)
From Coq Require Import ZArith Bool List Lia.
From DV Require Import Prelude Cost Grid.
Import ListNotations.
Open Scope Z_scope.

(* ------------------------------------------------------------------ points *)
Inductive inner := SqEuclid | AbsDiff.
Definition point := list Z.

Fixpoint pdist_sq (x y : point) : Z :=
  match x, y with
  | a :: x', b :: y' => (a - b) * (a - b) + pdist_sq x' y'
  | _, _ => 0
  end.
(* inner_dist = 'euclidean': the Euclidean norm of the difference vector.  Over Z this is the integer square root
   of the squared norm -- exact whenever that is a perfect square (always for d = 1, where it is |a - b|); the
   correspondence streams for d > 1 only use such points. *)
Definition pdist_abs (x y : point) : Z := Z.sqrt (pdist_sq x y).
Definition pdist (k : inner) (x y : point) : Z :=
  match k with SqEuclid => pdist_sq x y | AbsDiff => pdist_abs x y end.
(* innerdistance.*.inner_val : transformation applied to thresholds/penalty *)
Definition inner_val (k : inner) (x : Z) : Z :=
  match k with SqEuclid => x * x | AbsDiff => x end.

Lemma pdist_sq_nonneg x y : 0 <= pdist_sq x y.
Proof. revert y; induction x as [|a x IH]; destruct y as [|b y]; cbn [pdist_sq]; try lia. specialize (IH y). pose proof (Z.square_nonneg (a - b)). lia. Qed.
Lemma pdist_abs_nonneg x y : 0 <= pdist_abs x y.
Proof. unfold pdist_abs. apply Z.sqrt_nonneg. Qed.
Lemma pdist_nonneg k x y : 0 <= pdist k x y.
Proof. destruct k; [apply pdist_sq_nonneg|apply pdist_abs_nonneg]. Qed.
Lemma pdist_sq_sym x y : pdist_sq x y = pdist_sq y x.
Proof. revert y; induction x as [|a x IH]; destruct y as [|b y]; cbn [pdist_sq]; auto. rewrite IH. replace (b - a) with (- (a - b)) by lia. rewrite Z.mul_opp_opp. reflexivity. Qed.
Lemma pdist_abs_sym x y : pdist_abs x y = pdist_abs y x.
Proof. unfold pdist_abs. rewrite pdist_sq_sym. reflexivity. Qed.
Lemma pdist_sym k x y : pdist k x y = pdist k y x.
Proof. destruct k; [apply pdist_sq_sym|apply pdist_abs_sym]. Qed.
Lemma pdist_sq_refl x : pdist_sq x x = 0.
Proof. induction x as [|a x IHx]; cbn [pdist_sq]; auto. rewrite IHx, Z.sub_diag. reflexivity. Qed.
Lemma pdist_refl k x : pdist k x x = 0.
Proof. destruct k; cbn [pdist]; [apply pdist_sq_refl|unfold pdist_abs; rewrite pdist_sq_refl; reflexivity]. Qed.

(* ---------------------------------------------------------------- settings *)
(* User-level settings as the API takes them (None/0 = option off). *)
Record usettings := {
  u_window : option Z;
  u_penalty : option Z;
  u_max_step : option Z;
  u_max_length_diff : option Z;
  u_psi : (nat * nat) * (nat * nat);    (* ((psi_1b, psi_1e), (psi_2b, psi_2e)) *)
  u_inner : inner
}.

(* DTWSettings.__init__ : "if not self.x: off else inner_val(x)" *)
Definition adj_penalty (u : usettings) : Z :=
  match u_penalty u with None => 0 | Some p => if p =? 0 then 0 else inner_val (u_inner u) p end.
Definition adj_max_step (u : usettings) : cost :=
  match u_max_step u with None => Inf | Some p => if p =? 0 then Inf else Fin (inner_val (u_inner u) p) end.
(* DTWSettings.for_dtw : window None -> max(len(s1), len(s2)) *)
Definition eff_window (u : usettings) (r c : nat) : Z :=
  match u_window u with None => Z.max (Z.of_nat r) (Z.of_nat c) | Some w => w end.

Definition psi_1b u := fst (fst (u_psi u)).
Definition psi_1e u := snd (fst (u_psi u)).
Definition psi_2b u := fst (snd (u_psi u)).
Definition psi_2e u := snd (snd (u_psi u)).

(* ---------------------------------------------------------------- the band *)
(* Row i of an r x c problem may be matched with columns band_lo <= j < band_hi:
   |i - j| stays below window + (length difference on the long side).
   DVProps/BandTie.v proves that every band computation regenerated from /repo
   (dtw.distance, dtw.warping_paths, the affinity variant) is this one. *)
Definition band_lo (r c w i : Z) : Z := Z.max 0 (i - Z.max 0 (r - c) - w + 1).
Definition band_hi (r c w i : Z) : Z := Z.min c (i + Z.max 0 (c - r) + w).
Definition in_band (r c : nat) (w : Z) (i j : nat) : bool :=
  (band_lo (Z.of_nat r) (Z.of_nat c) w (Z.of_nat i) <=? Z.of_nat j) &&
  (Z.of_nat j <? band_hi (Z.of_nat r) (Z.of_nat c) w (Z.of_nat i)).

(* ------------------------------------------------ generic matrix over d,pen *)
Section Matrix.
Variable d : nat -> nat -> cost.     (* cell cost, Inf when blocked *)
Variable pen : Z.
Variables p1b p2b : nat.

Definition b0 (j : nat) : cost := if (j <=? p2b)%nat then Fin 0 else Inf.
Definition b1 (i : nat) : cost := if (i <=? p1b)%nat then Fin 0 else Inf.

(* the cell update exactly as the code writes it *)
Definition code_cell (dv diag up left : cost) : cost :=
  cadd dv (cmin3 diag (cadd up (Fin pen)) (cadd left (Fin pen))).

(* executable rows *)
Fixpoint scan_row (i j : nat) (pl : cost) (prev_tl : list cost) (left : cost) : list cost :=
  match prev_tl with
  | [] => []
  | pu :: rest =>
    let v := code_cell (d i j) pl pu left in
    v :: scan_row i (S j) pu rest v
  end.
Definition next_row (i : nat) (prev : list cost) : list cost :=
  match prev with
  | [] => []
  | p0 :: tl => let b := b1 (S i) in b :: scan_row i 0 p0 tl b
  end.
Fixpoint rows_from (i n : nat) (prev : list cost) : list (list cost) :=
  match n with
  | O => []
  | S n' => let nr := next_row i prev in nr :: rows_from (S i) n' nr
  end.
Definition row0 (c : nat) : list cost := map b0 (seq 0 (S c)).
Definition matrix (r c : nat) : list (list cost) := row0 c :: rows_from 0 r (row0 c).

(* the same matrix as a function, as an instance of the generic grid DP *)
Definition gcd (i j : nat) := d i j.
Definition gcu (i j : nat) := cadd (Fin pen) (d i j).
Definition Mf : nat -> nat -> cost := M cost cadd cmin b0 b1 gcd gcu gcu.
Arguments Mf : simpl never.

Lemma code_cell_grid dv diag up left :
  code_cell dv diag up left =
  min3 cost cmin (cadd diag dv) (cadd up (cadd (Fin pen) dv)) (cadd left (cadd (Fin pen) dv)).
Proof.
  unfold code_cell, cmin3, min3.
  assert (H : forall x, cadd dv (cadd x (Fin pen)) = cadd x (cadd (Fin pen) dv)).
  { intros x. rewrite (cadd_comm dv). rewrite <- cadd_assoc. reflexivity. }
  rewrite !cadd_cmin_distr_l. rewrite !H. rewrite (cadd_comm dv diag). reflexivity.
Qed.

Lemma Mf_S_S i j : Mf (S i) (S j) = code_cell (d i j) (Mf i j) (Mf i (S j)) (Mf (S i) j).
Proof. unfold Mf. rewrite M_S_S. rewrite code_cell_grid. reflexivity. Qed.

Lemma scan_row_nth : forall prev_tl i j pl left k,
  pl = Mf i j -> left = Mf (S i) j ->
  (forall k, (k < length prev_tl)%nat -> nth k prev_tl Inf = Mf i (S j + k)) ->
  (k < length prev_tl)%nat ->
  nth k (scan_row i j pl prev_tl left) Inf = Mf (S i) (S j + k).
Proof.
  induction prev_tl as [|pu rest IH]; intros i j pl left k Hpl Hleft Hprev Hk; simpl in Hk; [lia|].
  simpl. assert (Hpu : pu = Mf i (S j)).
  { specialize (Hprev O ltac:(simpl; lia)). simpl in Hprev. rewrite Nat.add_0_r in Hprev. exact Hprev. }
  assert (Hv : code_cell (d i j) pl pu left = Mf (S i) (S j)).
  { subst. symmetry. apply Mf_S_S. }
  destruct k as [|k].
  - rewrite Nat.add_0_r. exact Hv.
  - match goal with |- _ = Mf _ ?x => replace x with (S (S j) + k)%nat by lia end.
    apply IH; auto.
    + intros k' Hk'. specialize (Hprev (S k') ltac:(simpl; lia)). simpl in Hprev.
      rewrite Hprev. f_equal. lia.
    + lia.
Qed.

Lemma scan_row_length : forall prev_tl i j pl left, length (scan_row i j pl prev_tl left) = length prev_tl.
Proof. induction prev_tl; simpl; intros; auto. Qed.

Lemma next_row_spec i c prev :
  length prev = S c -> (forall k, (k <= c)%nat -> nth k prev Inf = Mf i k) ->
  length (next_row i prev) = S c /\ forall k, (k <= c)%nat -> nth k (next_row i prev) Inf = Mf (S i) k.
Proof.
  intros Hl Hp. destruct prev as [|p0 tl]; [discriminate|]. simpl in Hl.
  split; [simpl; rewrite scan_row_length; lia|].
  intros k Hk. destruct k as [|k]; [reflexivity|].
  cbn [next_row nth]. 
  replace (S k) with (S 0 + k)%nat by lia.
  apply scan_row_nth.
  - apply (Hp O). lia.
  - reflexivity.
  - intros k' Hk'. apply (Hp (S k')). lia.
  - lia.
Qed.

Lemma rows_from_spec : forall n i c prev,
  length prev = S c -> (forall k, (k <= c)%nat -> nth k prev Inf = Mf i k) ->
  length (rows_from i n prev) = n /\
  forall a k, (a < n)%nat -> (k <= c)%nat -> nth k (nth a (rows_from i n prev) []) Inf = Mf (S i + a) k.
Proof.
  induction n as [|n IH]; intros i c prev Hl Hp; simpl; [split; [auto|intros; lia]|].
  destruct (next_row_spec i c prev Hl Hp) as [Hl' Hp'].
  destruct (IH (S i) c (next_row i prev) Hl' Hp') as [HL HP].
  split; [lia|].
  intros a k Ha Hk. destruct a as [|a].
  - rewrite Hp' by auto. f_equal. lia.
  - rewrite HP by lia. f_equal. lia.
Qed.

Lemma row0_nth c k : (k <= c)%nat -> nth k (row0 c) Inf = b0 k.
Proof.
  intros Hk. unfold row0.
  rewrite nth_indep with (d' := b0 0) by (rewrite map_length, seq_length; lia).
  rewrite map_nth. rewrite seq_nth by lia. reflexivity.
Qed.

Theorem matrix_spec r c i j : (i <= r)%nat -> (j <= c)%nat ->
  nth j (nth i (matrix r c) []) Inf = Mf i j.
Proof.
  intros Hi Hj. unfold matrix.
  assert (Hl : length (row0 c) = S c) by (unfold row0; rewrite map_length, seq_length; auto).
  destruct i as [|i]; [simpl; apply row0_nth; auto|].
  cbn [nth].
  destruct (rows_from_spec r 0 c (row0 c) Hl) as [_ HP].
  { intros k Hk. rewrite row0_nth by auto. reflexivity. }
  apply (HP i j); lia.
Qed.

Lemma matrix_length r c : length (matrix r c) = S r.
Proof.
  unfold matrix. simpl. f_equal.
  assert (Hl : length (row0 c) = S c) by (unfold row0; rewrite map_length, seq_length; auto).
  destruct (rows_from_spec r 0 c (row0 c) Hl) as [HL _]; auto.
  intros k Hk. rewrite row0_nth by auto. reflexivity.
Qed.

(* ---------------------------------------------------------- paths and optimum *)
Definition path_cost := pcost cost cadd b0 b1 gcd gcu gcu.

Theorem Mf_lower i j p v : path_cost i j p = Some v -> cle (Mf i j) v.
Proof.
  apply (M_lower cost cle cadd cle_refl cle_trans cadd_mono_l cmin cmin_l cmin_r).
Qed.

Theorem Mf_attained i j : exists p, path_cost i j p = Some (Mf i j) /\ (length p <= i + j)%nat.
Proof.
  apply (M_attained cost cadd cmin cmin_cases).
Qed.

End Matrix.
