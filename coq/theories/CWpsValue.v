(* The part of dtw_warping_paths_ndim after the row regions (CWpsCanon.k_wtail, the regenerated text): on an array
   whose rows hold the matrix M through the layout, the value the kernel returns is the minimum of M over the
   psi-relaxed end cells - read at the corner when there is no end relaxation, else found by the two scans with their
   `break` - and the sqrt pass turns every cell into its square root.  No -1 marks here (psi_neg = false). *)
From Coq Require Import ZArith Bool Lia List.
From DV Require Import Prelude Cost Grid Dtw DtwProps CWps CFill CExpand CFillSim CLang CDistCanon CDistProofs CWpsCanon CWpsCanonEu CWpsKernel.
From DVGen Require Import Gen_cwps Gen_cfill Gen_cwpsk.
Import ListNotations.
Open Scope Z_scope.

Lemma zdown_seq n : zdown (Z.of_nat n) 0 = map (fun k => Z.of_nat n - Z.of_nat k) (seq 0 n).
Proof.
  unfold zdown. change (0 + 1) with (Z.of_nat 1). replace (Z.of_nat n + 1) with (Z.of_nat (1 + n)) by lia.
  rewrite zrange_seq. induction n as [|n IH].
  - reflexivity.
  - rewrite seq_S, map_app, rev_app_distr. cbn [map rev app]. rewrite IH.
    cbn [seq map]. replace (Z.of_nat (S n) - Z.of_nat 0) with (Z.of_nat (1 + n)) by lia. f_equal.
    rewrite <- seq_shift, map_map. apply map_ext. intros k. lia.
Qed.

Lemma fold_seq_inv {S} (P : nat -> S -> Prop) (f : S -> Z -> S) (h : nat -> Z) n s :
  P 0%nat s -> (forall k s, (k < n)%nat -> P k s -> P (Datatypes.S k) (f s (h k))) ->
  P n (fold_left f (map h (seq 0 n)) s).
Proof.
  intros H0 Hs.
  assert (G : forall m a s, (a + m = n)%nat -> P a s -> P n (fold_left f (map h (seq a m)) s)).
  { induction m as [|m IH]; intros a s' Ha Hp; cbn [seq map fold_left].
    - replace n with a by lia. exact Hp.
    - apply IH; [lia|]. apply Hs; [lia|exact Hp]. }
  apply G; [lia|exact H0].
Qed.

Lemma cltb_inf_l x : cltb Inf x = false.
Proof. destruct x; reflexivity. Qed.

(* a downward scan with a break: the minimum over the first min(n, pe+1) candidates *)
Lemma scan_spec (f : Z * cost * bool * bool -> Z -> Z * cost * bool * bool) (n pe : nat) (g : nat -> cost) rel0 :
  (forall rel v ok x, f (rel, v, ok, true) x = (rel, v, ok, true)) ->
  (forall rel v k, (k < n)%nat -> exists rel',
     f (rel, v, true, false) (Z.of_nat n - Z.of_nat k) =
       if (Z.of_nat n - Z.of_nat k + Z.of_nat pe >=? Z.of_nat n) then (rel', cmin v (g k), true, false) else (rel, v, true, true)) ->
  exists rel b, fold_left f (zdown (Z.of_nat n) 0) (rel0, Inf, true, false)
                = (rel, cmin_list (map g (seq 0 (Nat.min n (Datatypes.S pe)))), true, b).
Proof.
  intros Hbrk Hstep. rewrite zdown_seq.
  pose (P := fun (k : nat) (st : Z * cost * bool * bool) =>
               exists rel b, st = (rel, cmin_list (map g (seq 0 (Nat.min k (Datatypes.S pe)))), true, b) /\
                             (b = false -> (k <= Datatypes.S pe)%nat) /\ (b = true -> (Datatypes.S pe <= k)%nat)).
  assert (HP : P n (fold_left f (map (fun k => Z.of_nat n - Z.of_nat k) (seq 0 n)) (rel0, Inf, true, false))).
  { apply fold_seq_inv.
    - exists rel0, false. split; [reflexivity|]. split; [lia|discriminate].
    - intros k s Hk (rel & b & -> & Hb1 & Hb2). destruct b.
      + rewrite Hbrk. exists rel, true. specialize (Hb2 eq_refl).
        replace (Nat.min (Datatypes.S k) (Datatypes.S pe)) with (Nat.min k (Datatypes.S pe)) by lia.
        split; [reflexivity|]. split; [discriminate|lia].
      + specialize (Hb1 eq_refl). destruct (Hstep rel (cmin_list (map g (seq 0 (Nat.min k (Datatypes.S pe))))) k Hk) as (rel' & E).
        rewrite E. rewrite Z.geb_leb. destruct (Z.leb_spec (Z.of_nat n) (Z.of_nat n - Z.of_nat k + Z.of_nat pe)).
        * exists rel', false. replace (Nat.min (Datatypes.S k) (Datatypes.S pe)) with (Datatypes.S k) by lia.
          replace (Nat.min k (Datatypes.S pe)) with k by lia.
          rewrite seq_S, map_app, cmin_list_app. cbn [map cmin_list Nat.add]. rewrite cmin_inf_r.
          split; [reflexivity|]. split; [lia|discriminate].
        * exists rel, true. replace (Nat.min (Datatypes.S k) (Datatypes.S pe)) with (Nat.min k (Datatypes.S pe)) by lia.
          split; [reflexivity|]. split; [discriminate|lia]. }
  destruct HP as (rel & b & E & _). exists rel, b. exact E.
Qed.

Definition sqf (v : cost) : cost := if cltb (Fin 0) v then csqrt v else v.
Definition sq_repr (keep : bool) (v : cost) : cost := if keep then v else sqf v.

(* the sqrt pass over the whole array *)
Lemma sqrt_pass wl wps : Z.of_nat (length wps) = wl ->
  exists wps', fold_left (c_dtw_warping_paths_ndim_loop30 wl) (zrange 0 wl) (true, wps) = (true, wps') /\
    length wps' = length wps /\ forall i, 0 <= i < wl -> aget wps' i = sqf (aget wps i).
Proof.
  intros Hl.
  pose (P := fun (k : nat) (st : bool * list cost) => fst st = true /\ length (snd st) = length wps /\
     (forall i, 0 <= i < Z.of_nat k -> aget (snd st) i = sqf (aget wps i)) /\
     (forall i, ~ (0 <= i < Z.of_nat k) -> aget (snd st) i = aget wps i)).
  assert (HP : P (length wps) (fold_left (c_dtw_warping_paths_ndim_loop30 wl) (zrange 0 (Z.of_nat (length wps))) (true, wps))).
  { apply fold_zrange_inv.
    - unfold P. cbn [fst snd]. repeat split; intros; try lia; reflexivity.
    - intros k [ok w] Hk (Hok & Hlen & Hin & Hout). cbn [fst snd] in *. subst ok.
      unfold c_dtw_warping_paths_ndim_loop30.
      assert (Hi : inb wl (Z.of_nat k) = true) by (unfold inb; apply andb_true_iff; split; [apply Z.leb_le|apply Z.ltb_lt]; lia).
      rewrite Hi. cbn [andb]. rewrite (Hout (Z.of_nat k)) by lia.
      destruct (cltb (Fin 0) (aget wps (Z.of_nat k))) eqn:Ec; unfold P; cbn [fst snd].
      + split; [reflexivity|]. split; [rewrite aset_length; exact Hlen|]. split.
        * intros i Hi'. destruct (Z.eq_dec i (Z.of_nat k)) as [->|Hne].
          -- rewrite aget_aset_same by lia. unfold sqf. rewrite Ec. reflexivity.
          -- rewrite aget_aset_other by lia. apply Hin. lia.
        * intros i Hi'. rewrite aget_aset_other by lia. apply Hout. lia.
      + split; [reflexivity|]. split; [exact Hlen|]. split.
        * intros i Hi'. destruct (Z.eq_dec i (Z.of_nat k)) as [->|Hne].
          -- rewrite Hout by lia. unfold sqf. rewrite Ec. reflexivity.
          -- apply Hin. lia.
        * intros i Hi'. apply Hout. lia. }
  rewrite Hl in HP.
  destruct (fold_left (c_dtw_warping_paths_ndim_loop30 wl) (zrange 0 wl) (true, wps)) as [ok w].
  destruct HP as (Hok & Hlen & Hin & _). cbn [fst snd] in *. subst ok. exists w. split; [reflexivity|]. split; [exact Hlen|].
  intros i Hi. apply Hin. lia.
Qed.

(* the scans of the Euclidean twin are the same text *)
Lemma eu_loop26_tie a b c e f g h st x :
  c_dtw_warping_paths_ndim_euclidean_loop26 a b c e f g h st x = c_dtw_warping_paths_ndim_loop26 a b c e f g h st x.
Proof. reflexivity. Qed.
Lemma eu_loop27_tie a b c e f g h st x :
  c_dtw_warping_paths_ndim_euclidean_loop27 a b c e f g h st x = c_dtw_warping_paths_ndim_loop27 a b c e f g h st x.
Proof. reflexivity. Qed.

Section Value.
Variables l1 l2 window0 : Z.
Hypothesis H1 : 1 <= l1.
Hypothesis H2 : 1 <= l2.
Hypothesis Hw : 0 <= window0.
Variable d : nat -> nat -> cost.
Variable pen : Z.
Variables p1b p2b : nat.
Hypothesis Hd : forall ri ci : nat, Z.of_nat ri < l1 ->
  ~ (blo l1 l2 window0 (Z.of_nat ri) <= Z.of_nat ci < bhi l1 l2 window0 (Z.of_nat ri)) -> d ri ci = Inf.
Local Notation W := (cw_width l1 l2 window0).
Local Notation shiftz := (cw_shift l1 l2 window0).
Local Notation lo := (blo l1 l2 window0).
Local Notation hi := (bhi l1 l2 window0).
Local Notation wl := ((l1 + 1) * W).
Local Notation M := (Mf d pen p1b p2b).
Local Notation Mh := (holds l1 l2 window0 d pen p1b p2b).
Local Notation l1n := (Z.to_nat l1).
Local Notation l2n := (Z.to_nat l2).
Variable wps : list cost.
Hypothesis Hlen : Z.of_nat (length wps) = wl.
Hypothesis Hrows : forall k, (k <= l1n)%nat -> Mh k (rowf l1 l2 window0 wps k).

Lemma W_pos' : 0 < W.
Proof. exact (W_pos l1 l2 window0 H1 H2 Hw). Qed.

Lemma M_out_of_band ri ci : Z.of_nat ri < l1 -> ~ (lo (Z.of_nat ri) <= Z.of_nat ci < hi (Z.of_nat ri)) ->
  M (S ri) (S ci) = Inf.
Proof. intros Hri Hout. rewrite Mf_S_S, (Hd ri ci Hri Hout). unfold code_cell. apply cadd_inf_l. Qed.

(* the cell (ri, l2) of the last column, read the way the row scan reads it *)
Lemma last_col_read (ri : nat) : (1 <= ri)%nat -> Z.of_nat ri <= l1 ->
  let ci := l2 - shiftz (Z.of_nat ri - 1) in
  (if (ci >=? 0) && (ci <? W) then aget wps (Z.of_nat ri * W + ci) else Inf) = M ri l2n /\
  ((ci >=? 0) && (ci <? W) = true -> inb wl (Z.of_nat ri * W + ci) = true).
Proof.
  intros Hr1 Hr2 ci. pose proof W_pos' as HW. destruct ((ci >=? 0) && (ci <? W)) eqn:E.
  - apply andb_true_iff in E. destruct E as [E1 E2]. rewrite Z.geb_leb in E1. apply Z.leb_le in E1. apply Z.ltb_lt in E2.
    split.
    + pose proof (Hrows ri ltac:(lia) ci ltac:(lia)) as HH. cbv zeta in HH. unfold rowf in HH.
      rewrite HH; [f_equal; unfold ci; lia|unfold ci; lia|unfold ci; lia].
    + intros _. unfold inb. apply andb_true_iff. split; [apply Z.leb_le|apply Z.ltb_lt]; nia.
  - split; [|discriminate]. symmetry. destruct ri as [|r0]; [lia|].
    replace l2n with (S (l2n - 1)) by lia. apply M_out_of_band; [lia|]. intros Hin.
    destruct (row_facts l1 l2 window0 H1 H2 Hw (Z.of_nat r0) (Z.of_nat (l2n - 1)) ltac:(lia) Hin) as (Hs & _).
    apply andb_false_iff in E. rewrite Z.geb_leb in E. unfold ci in E.
    replace (Z.of_nat (S r0) - 1) with (Z.of_nat r0) in E by lia.
    destruct E as [E|E]; [apply Z.leb_gt in E|apply Z.ltb_ge in E]; lia.
Qed.

(* the cell (l1, ci) of the last row, read the way the column scan reads it *)
Lemma last_row_read (ci : nat) : (1 <= ci)%nat -> Z.of_nat ci <= l2 ->
  let wpsi := Z.of_nat ci - shiftz (l1 - 1) in
  (if (wpsi >=? 0) && (wpsi <? W) then aget wps (l1 * W + wpsi) else Inf) = M l1n ci /\
  ((wpsi >=? 0) && (wpsi <? W) = true -> inb wl (l1 * W + wpsi) = true).
Proof.
  intros Hc1 Hc2 wpsi. pose proof W_pos' as HW. destruct ((wpsi >=? 0) && (wpsi <? W)) eqn:E.
  - apply andb_true_iff in E. destruct E as [E1 E2]. rewrite Z.geb_leb in E1. apply Z.leb_le in E1. apply Z.ltb_lt in E2.
    split.
    + pose proof (Hrows l1n ltac:(lia) wpsi ltac:(lia)) as HH. cbv zeta in HH. unfold rowf in HH.
      replace (Z.of_nat l1n) with l1 in HH by lia.
      rewrite HH; [f_equal; unfold wpsi; lia|unfold wpsi; lia|unfold wpsi; lia].
    + intros _. unfold inb. apply andb_true_iff. split; [apply Z.leb_le|apply Z.ltb_lt]; nia.
  - split; [|discriminate]. symmetry. destruct ci as [|c0]; [lia|].
    replace l1n with (S (l1n - 1)) by lia. apply M_out_of_band; [lia|]. intros Hin.
    destruct (row_facts l1 l2 window0 H1 H2 Hw (Z.of_nat (l1n - 1)) (Z.of_nat c0) ltac:(lia) Hin) as (Hs & _).
    replace (Z.of_nat (l1n - 1)) with (l1 - 1) in Hs by lia.
    apply andb_false_iff in E. rewrite Z.geb_leb in E. unfold wpsi in E.
    destruct E as [E|E]; [apply Z.leb_gt in E|apply Z.ltb_ge in E]; lia.
Qed.

(* the corner cell is a band cell *)
Lemma corner_in_band : lo (l1 - 1) <= l2 - 1 < hi (l1 - 1).
Proof.
  unfold blo, bhi, band_lo, band_hi, cw_window.
  destruct (window_norm l1 l2 window0 Hw H1 H2) as [(W0 & Ww & _)|(W0 & Ww & _)]; rewrite Ww; lia.
Qed.

Lemma corner_read : aget wps (l1 * W + l2 - shiftz (l1 - 1)) = M l1n l2n /\ inb wl (l1 * W + l2 - shiftz (l1 - 1)) = true.
Proof.
  destruct (row_facts l1 l2 window0 H1 H2 Hw (l1 - 1) (l2 - 1) ltac:(lia) corner_in_band) as (Hs & _).
  destruct (last_col_read l1n ltac:(lia) ltac:(lia)) as [Hv Hi]. cbv zeta in Hv, Hi.
  replace (Z.of_nat l1n) with l1 in * by lia.
  assert (E : (l2 - shiftz (l1 - 1) >=? 0) && (l2 - shiftz (l1 - 1) <? W) = true).
  { apply andb_true_iff. split; [rewrite Z.geb_leb; apply Z.leb_le|apply Z.ltb_lt]; lia. }
  rewrite E in Hv. specialize (Hi E).
  replace (l1 * W + l2 - shiftz (l1 - 1)) with (l1 * W + (l2 - shiftz (l1 - 1))) by lia. split; assumption.
Qed.

(* the end cells of the specification, over M *)
Definition ecands (p1e p2e : nat) : list (nat * nat) :=
  map (fun k => ((l1n - k)%nat, l2n)) (seq 0 (S (Nat.min p1e (l1n - 1)))) ++
  map (fun k => (l1n, (l2n - k)%nat)) (seq 0 (S (Nat.min p2e (l2n - 1)))).
Definition end_value (p1e p2e : nat) : cost := cmin_list (map (fun ij => M (fst ij) (snd ij)) (ecands p1e p2e)).

Lemma row_scan p1e rel0 : exists rel b,
  fold_left (c_dtw_warping_paths_ndim_loop26 shiftz (Z.of_nat p1e) l1 l2 W wps wl) (zdown l1 0) (rel0, Inf, true, false)
  = (rel, cmin_list (map (fun k => M (l1n - k) l2n) (seq 0 (S (Nat.min p1e (l1n - 1))))), true, b).
Proof.
  replace (S (Nat.min p1e (l1n - 1))) with (Nat.min l1n (S p1e)) by lia.
  assert (Ez : zdown l1 0 = zdown (Z.of_nat l1n) 0) by (f_equal; lia). rewrite Ez.
  apply scan_spec.
  - intros. reflexivity.
  - intros rel v k Hk. unfold c_dtw_warping_paths_ndim_loop26.
    replace (Z.of_nat l1n - Z.of_nat k) with (Z.of_nat (l1n - k)) by lia.
    replace (Z.of_nat l1n) with l1 by lia.
    destruct (Z.of_nat (l1n - k) + Z.of_nat p1e >=? l1); cbn [negb]; [|exists rel; reflexivity].
    destruct (last_col_read (l1n - k) ltac:(lia) ltac:(lia)) as [Hv Hi]. cbv zeta in Hv, Hi.
    destruct ((l2 - shiftz (Z.of_nat (l1n - k) - 1) >=? 0) && (l2 - shiftz (Z.of_nat (l1n - k) - 1) <? W)) eqn:E.
    + rewrite (Hi eq_refl). cbn [negb orb andb]. rewrite Hv.
      destruct (cltb (M (l1n - k) l2n) v) eqn:Ec.
      * exists (Z.of_nat (l1n - k)). unfold cmin. unfold cltb in Ec. apply negb_true_iff in Ec. rewrite Ec. reflexivity.
      * exists rel. unfold cmin. unfold cltb in Ec. apply negb_false_iff in Ec. rewrite Ec. reflexivity.
    + cbn [negb orb andb]. exists rel. rewrite <- Hv, cmin_inf_r. reflexivity.
Qed.

Lemma col_scan p2e rel0 : exists rel b,
  fold_left (c_dtw_warping_paths_ndim_loop27 shiftz (Z.of_nat p2e) l1 l2 W wps wl) (zdown l2 0) (rel0, Inf, true, false)
  = (rel, cmin_list (map (fun k => M l1n (l2n - k)) (seq 0 (S (Nat.min p2e (l2n - 1))))), true, b).
Proof.
  replace (S (Nat.min p2e (l2n - 1))) with (Nat.min l2n (S p2e)) by lia.
  assert (Ez : zdown l2 0 = zdown (Z.of_nat l2n) 0) by (f_equal; lia). rewrite Ez.
  apply scan_spec.
  - intros. reflexivity.
  - intros rel v k Hk. unfold c_dtw_warping_paths_ndim_loop27.
    replace (Z.of_nat l2n - Z.of_nat k) with (Z.of_nat (l2n - k)) by lia.
    replace (Z.of_nat l2n) with l2 by lia.
    destruct (Z.of_nat (l2n - k) + Z.of_nat p2e >=? l2); cbn [negb]; [|exists rel; reflexivity].
    destruct (last_row_read (l2n - k) ltac:(lia) ltac:(lia)) as [Hv Hi]. cbv zeta in Hv, Hi.
    destruct ((Z.of_nat (l2n - k) - shiftz (l1 - 1) >=? 0) && (Z.of_nat (l2n - k) - shiftz (l1 - 1) <? W)) eqn:E.
    + rewrite (Hi eq_refl). cbn [negb orb andb]. rewrite Hv.
      destruct (cltb (M l1n (l2n - k)) v) eqn:Ec.
      * exists (Z.of_nat (l2n - k)). unfold cmin. unfold cltb in Ec. apply negb_true_iff in Ec. rewrite Ec. reflexivity.
      * exists rel. unfold cmin. unfold cltb in Ec. apply negb_false_iff in Ec. rewrite Ec. reflexivity.
    + cbn [negb orb andb]. exists rel. rewrite <- Hv, cmin_inf_r. reflexivity.
Qed.

Lemma cmin_idem_l x y : cmin x (cmin x y) = cmin x y.
Proof. rewrite <- cmin_assoc. f_equal. unfold cmin. destruct (cleb x x); reflexivity. Qed.

Lemma end_value_split p1e p2e :
  end_value p1e p2e = cmin (cmin_list (map (fun k => M (l1n - k) l2n) (seq 0 (S (Nat.min p1e (l1n - 1))))))
                           (cmin_list (map (fun k => M l1n (l2n - k)) (seq 0 (S (Nat.min p2e (l2n - 1)))))).
Proof. unfold end_value, ecands. rewrite map_app, cmin_list_app, !map_map. reflexivity. Qed.

(* the value the kernel returns, and the array after the optional sqrt pass *)
Theorem tail_value (keep : bool) (p1e p2e : nat) :
  exists wps',
    k_wtail shiftz true keep false l1 l2 W wl wl Inf (Z.of_nat p1e) (Z.of_nat p2e) true wps
    = (RPlain (sq_repr keep (end_value p1e p2e)), wps', true) /\
    length wps' = length wps /\ forall i, 0 <= i < wl -> aget wps' i = sq_repr keep (aget wps i).
Proof.
  assert (Hfin : forall v : cost, exists wps',
     (let rvalue := (if cltb Inf v then Inf else v) in
      let '(ok, rvalue, w) := (if negb keep then
          let '(ok, w) := fold_left (c_dtw_warping_paths_ndim_loop30 wl) (zrange 0 wl) (true, wps) in
          let rvalue := (if true then (if cltb (Fin 0) rvalue then csqrt rvalue else rvalue) else rvalue) in (ok, rvalue, w)
        else (true, rvalue, wps)) in (RPlain rvalue, w, ok))
     = (RPlain (sq_repr keep v), wps', true) /\
     length wps' = length wps /\ forall i, 0 <= i < wl -> aget wps' i = sq_repr keep (aget wps i)).
  { intros v. rewrite cltb_inf_l. cbv zeta. destruct keep; cbn [negb sq_repr].
    - exists wps. split; [reflexivity|]. split; [reflexivity|]. intros; reflexivity.
    - destruct (sqrt_pass wl wps Hlen) as (w & E & Hl & Hc). rewrite E. exists w. split; [reflexivity|]. split; assumption. }
  unfold k_wtail. cbv zeta. cbn [andb].
  destruct (Z.eqb_spec (Z.of_nat p1e) 0) as [E1|E1]; destruct (Z.eqb_spec (Z.of_nat p2e) 0) as [E2|E2]; cbn [andb negb].
  - (* no end relaxation: the corner *)
    destruct corner_read as [Hv Hi].
    replace (l1 * W + l2 - shiftz (l1 - 1)) with (l1 * W + l2 - shiftz (l1 - 1)) by reflexivity.
    rewrite Hi, Hv. cbn [andb].
    replace (end_value p1e p2e) with (M l1n l2n).
    + apply Hfin.
    + rewrite end_value_split. replace p1e with 0%nat by lia. replace p2e with 0%nat by lia. cbn [Nat.min seq map cmin_list].
      rewrite !Nat.sub_0_r, !cmin_inf_r. unfold cmin. destruct (cleb (M l1n l2n) (M l1n l2n)); reflexivity.
  - destruct (col_scan p2e l2) as (rel & b & E). rewrite E.
    rewrite cltb_inf_l.
    replace (end_value p1e p2e) with (cmin_list (map (fun k => M l1n (l2n - k)) (seq 0 (S (Nat.min p2e (l2n - 1)))))).
    + apply Hfin.
    + rewrite end_value_split. replace p1e with 0%nat by lia. cbn [Nat.min]. cbn [seq map cmin_list].
      rewrite !Nat.sub_0_r, !cmin_inf_r. symmetry. apply cmin_idem_l.
  - destruct (row_scan p1e l1) as (rel & b & E). rewrite E.
    replace (end_value p1e p2e) with (cmin_list (map (fun k => M (l1n - k) l2n) (seq 0 (S (Nat.min p1e (l1n - 1)))))).
    + set (a := cmin_list (map (fun k => M (l1n - k) l2n) (seq 0 (S (Nat.min p1e (l1n - 1)))))).
      destruct (cltb a Inf) eqn:Ec; [apply Hfin|].
      assert (Ea : a = Inf) by (destruct a; [discriminate Ec|reflexivity]). rewrite Ea. apply Hfin.
    + rewrite end_value_split. replace p2e with 0%nat by lia. cbn [Nat.min]. cbn [seq map cmin_list].
      rewrite !Nat.sub_0_r, !cmin_inf_r. symmetry. rewrite cmin_comm. apply cmin_idem_l.
  - destruct (row_scan p1e l1) as (rel & b & E). rewrite E.
    destruct (col_scan p2e l2) as (rel' & b' & E'). rewrite E'.
    rewrite end_value_split.
    set (a := cmin_list (map (fun k => M (l1n - k) l2n) (seq 0 (S (Nat.min p1e (l1n - 1)))))).
    set (c := cmin_list (map (fun k => M l1n (l2n - k)) (seq 0 (S (Nat.min p2e (l2n - 1)))))).
    replace (cmin a c) with (if cltb a c then a else c) by (rewrite cmin_if; apply cmin_comm).
    destruct (cltb a c); apply Hfin.
Qed.
(* the Euclidean twin: same scans, no sqrt pass *)
Theorem tail_value_eu (p1e p2e : nat) :
  k_wtail_eu shiftz true false l1 l2 W wl Inf (Z.of_nat p1e) (Z.of_nat p2e) true wps
  = (RPlain (end_value p1e p2e), wps, true).
Proof.
  assert (Hfin : forall v : cost,
     (let rvalue := (if cltb Inf v then Inf else v) in (RPlain rvalue, wps, true)) = (RPlain v, wps, true)).
  { intros v. rewrite cltb_inf_l. reflexivity. }
  unfold k_wtail_eu. cbv zeta. cbn [andb].
  change c_dtw_warping_paths_ndim_euclidean_loop26 with c_dtw_warping_paths_ndim_loop26.
  change c_dtw_warping_paths_ndim_euclidean_loop27 with c_dtw_warping_paths_ndim_loop27.
  destruct (Z.eqb_spec (Z.of_nat p1e) 0) as [E1|E1]; destruct (Z.eqb_spec (Z.of_nat p2e) 0) as [E2|E2]; cbn [andb negb].
  - destruct corner_read as [Hv Hi]. rewrite Hi, Hv. cbn [andb].
    replace (end_value p1e p2e) with (M l1n l2n).
    + apply Hfin.
    + rewrite end_value_split. replace p1e with 0%nat by lia. replace p2e with 0%nat by lia. cbn [Nat.min seq map cmin_list].
      rewrite !Nat.sub_0_r, !cmin_inf_r. unfold cmin. destruct (cleb (M l1n l2n) (M l1n l2n)); reflexivity.
  - destruct (col_scan p2e l2) as (rel & b & E). rewrite E.
    rewrite cltb_inf_l.
    replace (end_value p1e p2e) with (cmin_list (map (fun k => M l1n (l2n - k)) (seq 0 (S (Nat.min p2e (l2n - 1)))))).
    + apply Hfin.
    + rewrite end_value_split. replace p1e with 0%nat by lia. cbn [Nat.min]. cbn [seq map cmin_list].
      rewrite !Nat.sub_0_r, !cmin_inf_r. symmetry. apply cmin_idem_l.
  - destruct (row_scan p1e l1) as (rel & b & E). rewrite E.
    replace (end_value p1e p2e) with (cmin_list (map (fun k => M (l1n - k) l2n) (seq 0 (S (Nat.min p1e (l1n - 1)))))).
    + set (a := cmin_list (map (fun k => M (l1n - k) l2n) (seq 0 (S (Nat.min p1e (l1n - 1)))))).
      destruct (cltb a Inf) eqn:Ec; [apply Hfin|].
      assert (Ea : a = Inf) by (destruct a; [discriminate Ec|reflexivity]). rewrite Ea. apply Hfin.
    + rewrite end_value_split. replace p2e with 0%nat by lia. cbn [Nat.min]. cbn [seq map cmin_list].
      rewrite !Nat.sub_0_r, !cmin_inf_r. symmetry. rewrite cmin_comm. apply cmin_idem_l.
  - destruct (row_scan p1e l1) as (rel & b & E). rewrite E.
    destruct (col_scan p2e l2) as (rel' & b' & E'). rewrite E'.
    rewrite end_value_split.
    set (a := cmin_list (map (fun k => M (l1n - k) l2n) (seq 0 (S (Nat.min p1e (l1n - 1)))))).
    set (c := cmin_list (map (fun k => M l1n (l2n - k)) (seq 0 (S (Nat.min p2e (l2n - 1)))))).
    replace (cmin a c) with (if cltb a c then a else c) by (rewrite cmin_if; apply cmin_comm).
    destruct (cltb a c); apply Hfin.
Qed.
End Value.
