(* The canonical C kernel (CDistCanon.k_canon: flat two-row buffer addressed with i0/i1, Z indices,
   PrunedDTW bookkeeping, psi scans - the text regenerated from dd_dtw.c, see CDistTie.v) computes
   what the as-written model of dtw.distance computes (PyDist.distp_value), and every access it
   makes is inside the arrays (ok = true).  With PyDistPrune.distp_value_is_bounded this gives:
   the C kernels return the specification value cut at the bound. *)
From Coq Require Import ZArith Bool List Lia.
From DV Require Import Prelude Cost Grid Dtw DtwSpec BandTie PyDist PyDistProofs CLang CDistCanon.
From DVGen Require Import Gen_dtw.
Import ListNotations.
Open Scope Z_scope.

(* ------------------------------------------------------------------ generic: folds over zrange / seq *)
Lemma zrange_seq a n : zrange (Z.of_nat a) (Z.of_nat (a + n)) = map Z.of_nat (seq a n).
Proof.
  unfold zrange. replace (Z.to_nat (Z.of_nat (a + n) - Z.of_nat a)) with n by lia.
  revert a. induction n as [|n IH]; intros a; cbn [zrange_aux seq map]; [reflexivity|].
  f_equal. replace (Z.of_nat a + 1) with (Z.of_nat (S a)) by lia. apply IH.
Qed.

Lemma fold_sim {S T} (R : S -> T -> Prop) (f : S -> Z -> S) (g : T -> nat -> T) :
  forall n a s t, R s t ->
  (forall k s t, (a <= k < a + n)%nat -> R s t -> R (f s (Z.of_nat k)) (g t k)) ->
  R (fold_left f (zrange (Z.of_nat a) (Z.of_nat (a + n))) s) (fold_left g (seq a n) t).
Proof.
  intros n a s t H0 Hstep. rewrite zrange_seq. revert a s t H0 Hstep.
  induction n as [|n IH]; intros a s t H0 Hstep; cbn [seq map fold_left]; [exact H0|].
  apply IH; [apply Hstep; [lia|exact H0]|]. intros k s' t' Hk. apply Hstep. lia.
Qed.

Lemma cmin_if a b : (if cltb b a then b else a) = cmin a b.
Proof. unfold cltb, cmin. destruct (cleb a b); reflexivity. Qed.

(* ------------------------------------------------------------------ the two-row buffer *)
Section Arr.
Variable n : nat.
Local Notation zn := (Z.of_nat n).

Definition rowis (dtw : list cost) (b : Z) (row : list cost) : Prop :=
  forall q, (q < n)%nat -> aget dtw (b * zn + Z.of_nat q) = rget row q.

Lemma rget_upd_same row q v : (q < length row)%nat -> rget (upd_nat row q v) q = v.
Proof. intros H. unfold rget. apply nth_upd_nat_eq. exact H. Qed.
Lemma rget_upd_other row q q' v : q <> q' -> rget (upd_nat row q v) q' = rget row q'.
Proof. intros H. unfold rget. apply nth_upd_nat_neq. exact H. Qed.

Lemma rowis_aset_same dtw b row q v : (b = 0 \/ b = 1) -> length dtw = (2 * n)%nat -> length row = n -> (q < n)%nat ->
  rowis dtw b row -> rowis (aset dtw (b * zn + Z.of_nat q) v) b (upd_nat row q v).
Proof.
  intros Hb Hl Hr Hq H q' Hq'. destruct (Nat.eq_dec q q') as [<-|Hne].
  - rewrite aget_aset_same by (destruct Hb; subst b; lia). rewrite rget_upd_same by lia. reflexivity.
  - rewrite aget_aset_other by lia. rewrite rget_upd_other by exact Hne. apply H. exact Hq'.
Qed.

Lemma rowis_aset_other dtw b row q v : (b = 0 \/ b = 1) -> (q < n)%nat ->
  rowis dtw (1 - b) row -> rowis (aset dtw (b * zn + Z.of_nat q) v) (1 - b) row.
Proof.
  intros Hb Hq H q' Hq'. rewrite aget_aset_other by (destruct Hb; subst b; lia). apply H. exact Hq'.
Qed.
End Arr.

(* ------------------------------------------------------------------ small conversions *)
Lemma zeqb_nat a b : (Z.of_nat a =? Z.of_nat b) = (a =? b)%nat.
Proof. destruct (Z.eqb_spec (Z.of_nat a) (Z.of_nat b)), (Nat.eqb_spec a b); try reflexivity; lia. Qed.
Lemma zleb_nat a b : (Z.of_nat a <=? Z.of_nat b) = (a <=? b)%nat.
Proof. destruct (Z.leb_spec (Z.of_nat a) (Z.of_nat b)), (Nat.leb_spec a b); try reflexivity; lia. Qed.
Lemma zltb_nat a b : (Z.of_nat a <? Z.of_nat b) = (a <? b)%nat.
Proof. destruct (Z.ltb_spec (Z.of_nat a) (Z.of_nat b)), (Nat.ltb_spec a b); try reflexivity; lia. Qed.
Lemma zeqb_nat0 a : (Z.of_nat a =? 0) = (a =? 0)%nat.
Proof. apply (zeqb_nat a 0). Qed.

Lemma fold_zrange_inv {S} (P : nat -> S -> Prop) (f : S -> Z -> S) n s :
  P O s -> (forall k s, (k < n)%nat -> P k s -> P (Datatypes.S k) (f s (Z.of_nat k))) ->
  P n (fold_left f (zrange 0 (Z.of_nat n)) s).
Proof.
  intros H0 Hs. change 0 with (Z.of_nat 0). change n with (0 + n)%nat at 2. rewrite zrange_seq.
  assert (G : forall m a s, (a + m = n)%nat -> P a s -> P n (fold_left f (map Z.of_nat (seq a m)) s)).
  { induction m as [|m IH]; intros a s' Ha Hp; cbn [seq map fold_left].
    - replace n with a by lia. exact Hp.
    - apply IH; [lia|]. apply Hs; [lia|exact Hp]. }
  apply G; [lia|exact H0].
Qed.

Lemma cmin_assoc a b x : cmin (cmin a b) x = cmin a (cmin b x).
Proof.
  apply cle_antisym.
  - apply cmin_glb; [eapply cle_trans; [apply cmin_l|apply cmin_l]|].
    apply cmin_glb; [eapply cle_trans; [apply cmin_l|apply cmin_r]|apply cmin_r].
  - apply cmin_glb; [apply cmin_glb; [apply cmin_l|eapply cle_trans; [apply cmin_r|apply cmin_l]]|].
    eapply cle_trans; [apply cmin_r|apply cmin_r].
Qed.

Lemma fold_cmin l a : fold_left (fun p x => cmin p x) l a = cmin (cmin_list l) a.
Proof.
  revert a. induction l as [|x l IH]; intros a; cbn [fold_left cmin_list]; [rewrite cmin_inf_l; reflexivity|].
  rewrite IH. rewrite (cmin_comm a x), <- cmin_assoc. f_equal. apply cmin_comm.
Qed.

Lemma fold_left_map' {X Y Z'} (f : X -> Y -> X) (g : Z' -> Y) l a :
  fold_left f (map g l) a = fold_left (fun a x => f a (g x)) l a.
Proof. revert a. induction l as [|x l IH]; intros a; cbn [map fold_left]; [reflexivity|apply IH]. Qed.

Lemma zmax_nat a b : (if Z.of_nat b >? Z.of_nat a then Z.of_nat b else Z.of_nat a) = Z.of_nat (Nat.max a b).
Proof. destruct (Z.gtb_spec (Z.of_nat b) (Z.of_nat a)); lia. Qed.

Lemma zrange_trunc a b : zrange (Z.of_nat a) (Z.of_nat b) = zrange (Z.of_nat a) (Z.of_nat (a + (b - a))).
Proof. unfold zrange. f_equal. lia. Qed.

Lemma aget_amake junk n k : (k < n)%nat -> aget (amake junk (Z.of_nat n)) (Z.of_nat k) = junk (Z.of_nat k).
Proof.
  intros Hk. unfold aget, amake. destruct (Z.ltb_spec (Z.of_nat k) 0); [lia|]. rewrite Nat2Z.id.
  change 0 with (Z.of_nat 0). change (Z.of_nat n) with (Z.of_nat (0 + n)). rewrite zrange_seq, map_map.
  rewrite nth_map_seq by exact Hk. reflexivity.
Qed.

Section Refine.
Variable u : usettings.
Variables s1 s2 : list point.
Variable B : cost.
Variables (dok : Z -> Z -> bool) (dfun : Z -> Z -> cost).
Local Notation r := (length s1).
Local Notation c := (length s2).
Local Notation w := (eff_window u r c).
Local Notation zr := (Z.of_nat r).
Local Notation zc := (Z.of_nat c).
Hypothesis Hw : 1 <= w.
Hypothesis Hr : (1 <= r)%nat.
Hypothesis Hc : (1 <= c)%nat.
(* the point distance of the variant: accesses in range, value = the model's point distance *)
Hypothesis Hd : forall i j, (i < r)%nat -> (j < c)%nat ->
  dok (Z.of_nat i) (Z.of_nat j) = true /\
  dfun (Z.of_nat i) (Z.of_nat j) = Fin (pdist (u_inner u) (nth i s1 []) (nth j s2 [])).

Local Notation LL := (L u s1 s2).
Local Notation zL := (Z.of_nat (L u s1 s2)).
Local Notation sk := (skip_of u s1 s2).
Local Notation jS := (js u s1 s2).
Local Notation jE := (je u s1 s2).
Local Notation ms := (adj_max_step u).
Local Notation pen := (Fin (adj_penalty u)).

(* ------------------------------------------------------------------ the cell loop *)
Section CellLoop.
Variables (i : nat) (i0 i1 : Z) (skipp skip : nat) (prev : list cost) (ec : nat).
Hypothesis Hi : (i < r)%nat.
Hypothesis Hi1 : i1 = 0 \/ i1 = 1.
Hypothesis Hi0 : i0 = 1 - i1.

Definition R5 (cst : st5) (pst : pst) : Prop :=
  let '(dtw, ecn, ok, sc, sf, brk) := cst in
  length dtw = (2 * LL)%nat /\ rowis LL dtw i0 prev /\ rowis LL dtw i1 (p_cur pst) /\ length (p_cur pst) = LL /\
  ecn = Z.of_nat (p_ecn pst) /\ ok = true /\ sc = Z.of_nat (p_sc pst) /\ sf = p_smaller pst /\ brk = p_stop pst.

Lemma loop5_step j cst pst :
  (j < c)%nat -> (skipp <= j)%nat -> (j + 1 - skipp < LL)%nat -> (skip <= j)%nat -> (j + 1 - skip < LL)%nat ->
  R5 cst pst ->
  R5 (k_loop5 dok dfun (zL * 2) (Z.of_nat ec) (Z.of_nat i) i0 i1 zL B ms pen (Z.of_nat skip) (Z.of_nat skipp) cst (Z.of_nat j))
     (pstep u s1 s2 B i skipp skip prev ec pst j).
Proof.
  intros Hj Hs1 Hs2 Hs3 Hs4.
  destruct cst as [[[[[dtw ecn] ok] sc] sf] brk]. intros (Hlen & Hp & Hc1 & Hlc & -> & -> & -> & -> & ->).
  unfold k_loop5, pstep. destruct (p_stop pst) eqn:Estop.
  { unfold R5. rewrite Estop. auto 10. }
  destruct (Hd i j Hi Hj) as [Edok Edf]. rewrite Edok, Edf. cbn [andb].
  unfold cltb at 1. destruct (cleb (Fin (pdist (u_inner u) (nth i s1 []) (nth j s2 []))) ms) eqn:Ems; cbn [negb].
  2:{ unfold R5. rewrite Estop. auto 10. }
  (* the three reads *)
  assert (Ea : aget dtw (i0 * zL + Z.of_nat j - Z.of_nat skipp) = rget prev (j - skipp)).
  { replace (i0 * zL + Z.of_nat j - Z.of_nat skipp) with (i0 * zL + Z.of_nat (j - skipp)) by lia. apply Hp. lia. }
  assert (Eb : aget dtw (i0 * zL + Z.of_nat j - Z.of_nat skipp + 1) = rget prev (j + 1 - skipp)).
  { replace (i0 * zL + Z.of_nat j - Z.of_nat skipp + 1) with (i0 * zL + Z.of_nat (j + 1 - skipp)) by lia. apply Hp. lia. }
  assert (Ec : aget dtw (i1 * zL + Z.of_nat j - Z.of_nat skip) = rget (p_cur pst) (j - skip)).
  { replace (i1 * zL + Z.of_nat j - Z.of_nat skip) with (i1 * zL + Z.of_nat (j - skip)) by lia. apply Hc1. lia. }
  cbv zeta. rewrite Ea, Eb, Ec, !cmin_if.
  set (v := cadd (Fin (pdist (u_inner u) (nth i s1 []) (nth j s2 [])))
                 (cmin (cmin (rget prev (j - skipp)) (cadd (rget prev (j + 1 - skipp)) pen)) (cadd (rget (p_cur pst) (j - skip)) pen))).
  assert (Ev : code_cell (adj_penalty u) (Fin (pdist (u_inner u) (nth i s1 []) (nth j s2 []))) (rget prev (j - skipp))
                         (rget prev (j + 1 - skipp)) (rget (p_cur pst) (j - skip)) = v) by reflexivity.
  rewrite Ev.
  assert (Ew : i1 * zL + Z.of_nat j - Z.of_nat skip + 1 = i1 * zL + Z.of_nat (j + 1 - skip)) by lia.
  rewrite Ew.
  assert (Hin : forall b, b = 0 \/ b = 1 -> forall q, (q < LL)%nat -> inb (zL * 2) (b * zL + Z.of_nat q) = true).
  { intros b Hb q Hq. unfold inb. destruct Hb; subst b; apply andb_true_intro; split; [apply Z.leb_le|apply Z.ltb_lt|apply Z.leb_le|apply Z.ltb_lt]; lia. }
  assert (Hi0' : i0 = 0 \/ i0 = 1) by lia.
  replace (inb (zL * 2) (i0 * zL + Z.of_nat j - Z.of_nat skipp)) with true
    by (symmetry; replace (i0 * zL + Z.of_nat j - Z.of_nat skipp) with (i0 * zL + Z.of_nat (j - skipp)) by lia; apply Hin; [exact Hi0'|lia]).
  replace (inb (zL * 2) (i0 * zL + Z.of_nat j - Z.of_nat skipp + 1)) with true
    by (symmetry; replace (i0 * zL + Z.of_nat j - Z.of_nat skipp + 1) with (i0 * zL + Z.of_nat (j + 1 - skipp)) by lia; apply Hin; [exact Hi0'|lia]).
  replace (inb (zL * 2) (i1 * zL + Z.of_nat j - Z.of_nat skip)) with true
    by (symmetry; replace (i1 * zL + Z.of_nat j - Z.of_nat skip) with (i1 * zL + Z.of_nat (j - skip)) by lia; apply Hin; [exact Hi1|lia]).
  rewrite (Hin i1 Hi1 (j + 1 - skip)%nat) by lia. cbn [andb].
  rewrite aget_aset_same by (destruct Hi1; subst i1; lia).
  assert (Hrow1 : rowis LL (aset dtw (i1 * zL + Z.of_nat (j + 1 - skip)) v) i1 (upd_nat (p_cur pst) (j + 1 - skip) v)).
  { apply rowis_aset_same; [exact Hi1|exact Hlen|exact Hlc|lia|exact Hc1]. }
  assert (Hrow0 : rowis LL (aset dtw (i1 * zL + Z.of_nat (j + 1 - skip)) v) i0 prev).
  { subst i0. apply rowis_aset_other; [exact Hi1|lia|exact Hp]. }
  assert (Hlen' : length (aset dtw (i1 * zL + Z.of_nat (j + 1 - skip)) v) = (2 * LL)%nat) by (rewrite aset_length; exact Hlen).
  assert (Hlc' : length (upd_nat (p_cur pst) (j + 1 - skip) v) = LL) by (rewrite upd_nat_length; exact Hlc).
  unfold cltb. destruct (cleb v B) eqn:EvB; cbn [negb].
  - (* below the bound *)
    unfold R5. cbn [p_cur p_sc p_smaller p_ecn p_stop]. repeat split; try assumption; try reflexivity. lia.
  - (* above the bound *)
    destruct (Z.geb_spec (Z.of_nat j) (Z.of_nat ec)) as [Hge|Hlt].
    + unfold R5. cbn [p_cur p_sc p_smaller p_ecn p_stop].
      replace (ec <=? j)%nat with true by (symmetry; apply Nat.leb_le; lia).
      repeat split; try assumption; try reflexivity. destruct (p_smaller pst); cbn [negb]; lia.
    + unfold R5. cbn [p_cur p_sc p_smaller p_ecn p_stop].
      replace (ec <=? j)%nat with false by (symmetry; apply Nat.leb_gt; lia).
      repeat split; try assumption; try reflexivity. destruct (p_smaller pst); cbn [negb]; lia.
Qed.
End CellLoop.

(* ------------------------------------------------------------------ geometry of the C row loop *)
Local Notation dl := (fst (k_ldiff zr zc)).
Local Notation ldiff := (snd (k_ldiff zr zc)).
Local Notation dl_window := (dl + w - 1).
Local Notation ldiff_window := (if zc >? zr then w + ldiff else w).

Lemma c_length : Z.min (zc + 1) (ldiff + 2 * w + 1) = zL.
Proof.
  unfold L, py_dist_length, k_ldiff. destruct (Z.gtb_spec zr zc); cbn [fst snd]; lia.
Qed.

Lemma c_geom i : (i < r)%nat ->
  (Z.of_nat i - dl_window) * (if Z.of_nat i >? dl_window then 1 else 0) = Z.of_nat (jS i) /\
  (if Z.of_nat i + ldiff_window >? zc then zc else Z.of_nat i + ldiff_window) = Z.of_nat (jE i) /\
  Z.of_nat (jS i) * (if negb (zL =? zc + 1) then 1 else 0) = Z.of_nat (sk i).
Proof.
  intros Hi. unfold js, je, skip_of, eff_skip, L, py_dist_j_start, py_dist_j_end, py_dist_skip, py_dist_length, k_ldiff.
  destruct (Z.gtb_spec zr zc); cbn [fst snd].
  - destruct (Z.gtb_spec zc zr); [lia|].
    destruct (Z.gtb_spec (Z.of_nat i) (zr - zc + w - 1)); destruct (Z.gtb_spec (Z.of_nat i + w) zc);
    destruct (Z.eqb_spec (Z.of_nat (Z.to_nat (Z.min (zc + 1) (Z.abs (zr - zc) + 2 * (w - 1) + 1 + 1 + 1)))) (zc + 1));
    destruct (Z.eqb_spec (Z.min (zc + 1) (Z.abs (zr - zc) + 2 * (w - 1) + 1 + 1 + 1)) (zc + 1)); cbn [negb]; lia.
  - destruct (Z.gtb_spec zc zr);
    destruct (Z.gtb_spec (Z.of_nat i) (0 + w - 1)); try destruct (Z.gtb_spec (Z.of_nat i + (w + (zc - zr))) zc);
    try destruct (Z.gtb_spec (Z.of_nat i + w) zc);
    destruct (Z.eqb_spec (Z.of_nat (Z.to_nat (Z.min (zc + 1) (Z.abs (zr - zc) + 2 * (w - 1) + 1 + 1 + 1)))) (zc + 1));
    destruct (Z.eqb_spec (Z.min (zc + 1) (Z.abs (zr - zc) + 2 * (w - 1) + 1 + 1 + 1)) (zc + 1)); cbn [negb]; lia.
Qed.
(* ------------------------------------------------------------------ loops 1, 2, 4 *)
Lemma inb_row b q : (b = 0 \/ b = 1) -> (q < LL)%nat -> inb (zL * 2) (b * zL + Z.of_nat q) = true.
Proof.
  intros Hb Hq. unfold inb. destruct Hb; subst b; apply andb_true_intro; split;
    [apply Z.leb_le|apply Z.ltb_lt|apply Z.leb_le|apply Z.ltb_lt]; lia.
Qed.

(* for (j=0; j<length; j++) dtw[length * i1 + j] = INFINITY *)
Lemma loop4_spec dtw i1 row0 : (i1 = 0 \/ i1 = 1) -> length dtw = (2 * LL)%nat -> rowis LL dtw (1 - i1) row0 ->
  exists dtw', fold_left (k_loop4 (zL * 2) i1 zL) (zrange 0 zL) (dtw, true) = (dtw', true) /\
    length dtw' = (2 * LL)%nat /\ rowis LL dtw' i1 (repeat Inf LL) /\ rowis LL dtw' (1 - i1) row0.
Proof.
  intros Hi1 Hlen H0.
  pose (P := fun (k : nat) (st : st2) => snd st = true /\ length (fst st) = (2 * LL)%nat /\
               (forall q, (q < k)%nat -> aget (fst st) (i1 * zL + Z.of_nat q) = Inf) /\ rowis LL (fst st) (1 - i1) row0).
  assert (HP : P LL (fold_left (k_loop4 (zL * 2) i1 zL) (zrange 0 zL) (dtw, true))).
  { apply fold_zrange_inv.
    - unfold P; cbn [fst snd]. repeat split; try assumption. intros q Hq; lia.
    - intros k [d ok] Hk (Hok & Hl & Hz & Hr0). cbn [fst snd] in *. subst ok. unfold k_loop4, P. cbn [fst snd].
      replace (zL * i1 + Z.of_nat k) with (i1 * zL + Z.of_nat k) by lia.
      rewrite inb_row by assumption. repeat split.
      + rewrite aset_length. exact Hl.
      + intros q Hq. destruct (Nat.eq_dec q k) as [->|Hne].
        * apply aget_aset_same. destruct Hi1; subst i1; lia.
        * rewrite aget_aset_other by lia. apply Hz. lia.
      + apply rowis_aset_other; assumption. }
  destruct (fold_left (k_loop4 (zL * 2) i1 zL) (zrange 0 zL) (dtw, true)) as [dtw' ok'].
  destruct HP as (Hok & Hl & Hz & Hr0). cbn [fst snd] in *. subst ok'. exists dtw'. repeat split; try assumption.
  intros q Hq. rewrite Hz by exact Hq. unfold rget. symmetry. apply nth_repeat_inf.
Qed.

(* for (j=0; j<length*2; j++) dtw[j] = INFINITY;  for (i=0; i<MIN(psi_2b+1, length); i++) dtw[i] = 0 *)
Lemma init_spec junk :
  exists dtw, fold_left (k_loop2 (zL * 2)) (zrange 0 (Z.min (Z.of_nat (psi_2b u) + 1) zL))
                (fold_left (k_loop1 (zL * 2)) (zrange 0 (zL * 2)) (amake junk (zL * 2), true)) = (dtw, true) /\
    length dtw = (2 * LL)%nat /\ rowis LL dtw 0 (row_init u s1 s2).
Proof.
  pose (P1 := fun (k : nat) (st : st2) => snd st = true /\ length (fst st) = (2 * LL)%nat /\
               (forall q, (q < k)%nat -> aget (fst st) (Z.of_nat q) = Inf)).
  assert (H1 : P1 (2 * LL)%nat (fold_left (k_loop1 (zL * 2)) (zrange 0 (zL * 2)) (amake junk (zL * 2), true))).
  { replace (zL * 2) with (Z.of_nat (2 * LL)) at 2 by lia. apply fold_zrange_inv.
    - unfold P1; cbn [fst snd]. repeat split; [rewrite amake_length; lia|intros q Hq; lia].
    - intros k [d ok] Hk (Hok & Hl & Hz). cbn [fst snd] in *. subst ok. unfold k_loop1, P1. cbn [fst snd].
      replace (inb (zL * 2) (Z.of_nat k)) with true
        by (symmetry; unfold inb; apply andb_true_intro; split; [apply Z.leb_le|apply Z.ltb_lt]; lia).
      repeat split.
      + rewrite aset_length. exact Hl.
      + intros q Hq. destruct (Nat.eq_dec q k) as [->|Hne].
        * apply aget_aset_same. lia.
        * rewrite aget_aset_other by lia. apply Hz. lia. }
  destruct (fold_left (k_loop1 (zL * 2)) (zrange 0 (zL * 2)) (amake junk (zL * 2), true)) as [d1 ok1].
  destruct H1 as (Hok1 & Hl1 & Hz1). cbn [fst snd] in *. subst ok1.
  set (m := Nat.min (psi_2b u + 1) LL).
  pose (P2 := fun (k : nat) (st : st2) => snd st = true /\ length (fst st) = (2 * LL)%nat /\
               (forall q, (q < 2 * LL)%nat -> aget (fst st) (Z.of_nat q) = if (q <? k)%nat then Fin 0 else Inf)).
  assert (H2 : P2 m (fold_left (k_loop2 (zL * 2)) (zrange 0 (Z.min (Z.of_nat (psi_2b u) + 1) zL)) (d1, true))).
  { replace (Z.min (Z.of_nat (psi_2b u) + 1) zL) with (Z.of_nat m) by (unfold m; lia). apply fold_zrange_inv.
    - unfold P2; cbn [fst snd]. repeat split; [exact Hl1|]. intros q Hq. rewrite Hz1 by exact Hq.
      destruct (Nat.ltb_spec q 0); [lia|reflexivity].
    - intros k [d ok] Hk (Hok & Hl & Hz). cbn [fst snd] in *. subst ok. unfold k_loop2, P2. cbn [fst snd].
      replace (inb (zL * 2) (Z.of_nat k)) with true
        by (symmetry; unfold inb; apply andb_true_intro; split; [apply Z.leb_le|apply Z.ltb_lt]; unfold m in Hk; lia).
      repeat split.
      + rewrite aset_length. exact Hl.
      + intros q Hq. destruct (Nat.eq_dec q k) as [->|Hne].
        * rewrite aget_aset_same by (unfold m in Hk; lia). destruct (Nat.ltb_spec k (S k)); [reflexivity|lia].
        * rewrite aget_aset_other by lia. rewrite Hz by exact Hq.
          destruct (Nat.ltb_spec q k), (Nat.ltb_spec q (S k)); try reflexivity; lia. }
  destruct (fold_left (k_loop2 (zL * 2)) (zrange 0 (Z.min (Z.of_nat (psi_2b u) + 1) zL)) (d1, true)) as [d2 ok2].
  destruct H2 as (Hok2 & Hl2 & Hz2). cbn [fst snd] in *. subst ok2. exists d2. repeat split; [exact Hl2|].
  intros q Hq. replace (0 * zL + Z.of_nat q) with (Z.of_nat q) by lia. rewrite Hz2 by lia.
  unfold row_init, rget. rewrite nth_map_seq by exact Hq.
  unfold m. destruct (Nat.ltb_spec q (Nat.min (psi_2b u + 1) LL)), (Nat.leb_spec q (psi_2b u)); try reflexivity; lia.
Qed.
(* ------------------------------------------------------------------ the row loop *)
Local Notation zp1b := (Z.of_nat (psi_1b u)).
Local Notation zp1e := (Z.of_nat (psi_1e u)).
Local Notation zp2b := (Z.of_nat (psi_2b u)).
Local Notation zp2e := (Z.of_nat (psi_2e u)).

Definition RowR (n : nat) (cst : st3) : Prop :=
  let '(dtw, ec, i0, i1, ok, ps, sc, skip) := cst in
  let '(prev, skipp, ps', sc', ec') := prows u s1 s2 B n in
  length dtw = (2 * LL)%nat /\ (i1 = 0 \/ i1 = 1) /\ i0 = 1 - i1 /\ rowis LL dtw i1 prev /\ length prev = LL /\
  ok = true /\ ps = ps' /\ sc = Z.of_nat sc' /\ ec = Z.of_nat ec' /\ skip = Z.of_nat skipp /\
  skipp = match n with O => O | S m => sk m end.

Lemma row_step n cst : (n < r)%nat -> RowR n cst ->
  RowR (S n) (k_loop3 k_loop4 (k_loop5 dok dfun) zp1b zp1e dl_window (zL * 2) zr zc ldiff_window zL B ms pen cst (Z.of_nat n)).
Proof.
  intros Hn. destruct cst as [[[[[[[dtw ec] i0] i1] ok] ps] sc] skip]. unfold RowR at 1.
  destruct (prows u s1 s2 B n) as [[[[prev skipp] ps'] sc'] ec'] eqn:Ep.
  intros (Hlen & Hi1 & Hi0 & Hrow & Hlp & -> & -> & -> & -> & -> & Hskp). subst i0.
  destruct (c_geom n Hn) as (Emaxj & Eminj & Eskip).
  destruct (geom_row u s1 s2 Hw Hr Hc n Hn) as (G1 & G2 & G3 & G4 & G5 & G6).
  assert (Gp : (skipp <= jS n)%nat /\ (jE n - skipp < LL)%nat).
  { subst skipp. destruct n as [|m].
    - destruct (geom_first u s1 s2 Hw Hr Hc) as (F1 & F2 & F3). lia.
    - destruct (geom_succ u s1 s2 Hw Hr Hc m Hn) as (S1 & S2 & S3 & S4 & S5 & S6). lia. }
  unfold k_loop3. cbv zeta. rewrite Emaxj, Eminj, Eskip.
  (* reset of the new current row *)
  assert (Hi1' : 1 - i1 = 0 \/ 1 - i1 = 1) by lia.
  assert (Hrow' : rowis LL dtw (1 - (1 - i1)) prev) by (replace (1 - (1 - i1)) with i1 by lia; exact Hrow).
  destruct (loop4_spec dtw (1 - i1) prev Hi1' Hlen Hrow') as (dtw1 & Ef4 & Hl1 & Hinf1 & Hprev1).
  rewrite Ef4. replace (1 - (1 - i1)) with i1 in Hprev1 by lia.
  (* the pruning start column *)
  rewrite zleb_nat.
  set (sc1 := (if (n <=? psi_1b u)%nat then 0 else sc')%nat).
  replace (if (n <=? psi_1b u)%nat then 0 else Z.of_nat sc') with (Z.of_nat sc1)
    by (unfold sc1; destruct (n <=? psi_1b u)%nat; reflexivity).
  rewrite zmax_nat. set (j0 := Nat.max (jS n) sc1).
  rewrite zeqb_nat0, (zeqb_nat0 j0), zltb_nat.
  (* the model side *)
  unfold RowR. cbn [prows]. rewrite Ep. unfold prow_step. fold sc1. fold j0.
  set (cur1 := if negb (psi_1b u =? 0)%nat && (j0 =? 0)%nat && (n <? psi_1b u)%nat
               then upd_nat (repeat Inf LL) 0 (Fin 0) else repeat Inf LL).
  (* the border cell *)
  assert (Hb : exists dtw2,
     (if negb (psi_1b u =? 0)%nat && (j0 =? 0)%nat && (n <? psi_1b u)%nat
      then (aset dtw1 ((1 - i1) * zL + 0) (Fin 0), true && inb (zL * 2) ((1 - i1) * zL + 0)) else (dtw1, true)) = (dtw2, true) /\
     length dtw2 = (2 * LL)%nat /\ rowis LL dtw2 (1 - i1) cur1 /\ rowis LL dtw2 i1 prev).
  { unfold cur1. destruct (negb (psi_1b u =? 0)%nat && (j0 =? 0)%nat && (n <? psi_1b u)%nat).
    - exists (aset dtw1 ((1 - i1) * zL + 0) (Fin 0)). replace ((1 - i1) * zL + 0) with ((1 - i1) * zL + Z.of_nat 0) by lia.
      rewrite inb_row by (try assumption; lia). split; [reflexivity|]. split; [rewrite aset_length; exact Hl1|]. split.
      + apply rowis_aset_same; try assumption; try apply repeat_length; lia.
      + replace i1 with (1 - (1 - i1)) at 2 by lia. apply rowis_aset_other; [exact Hi1'|lia|].
        replace (1 - (1 - i1)) with i1 by lia. exact Hprev1.
    - exists dtw1. repeat split; assumption. }
  destruct Hb as (dtw2 & Eb & Hl2 & Hcur2 & Hprev2).
  match goal with |- context [if ?cnd then (aset dtw1 ?ix ?vv, ?okk) else (dtw1, true)] =>
    replace (if cnd then (aset dtw1 ix vv, okk) else (dtw1, true)) with (dtw2, true) by (symmetry; exact Eb) end.
  (* the cell loop *)
  set (pst0 := {| p_cur := cur1; p_sc := sc1; p_smaller := false; p_ecn := n; p_stop := false |}).
  assert (Hlc1 : length cur1 = LL).
  { unfold cur1. destruct (negb (psi_1b u =? 0)%nat && (j0 =? 0)%nat && (n <? psi_1b u)%nat);
      [rewrite upd_nat_length|]; apply repeat_length. }
  assert (HR0 : R5 (1 - (1 - i1)) (1 - i1) prev (dtw2, Z.of_nat n, true, Z.of_nat sc1, false, false) pst0).
  { unfold R5, pst0. cbn [p_cur p_sc p_smaller p_ecn p_stop]. replace (1 - (1 - i1)) with i1 by lia.
    repeat split; assumption. }
  rewrite (zrange_trunc j0 (jE n)).
  pose proof (fold_sim (R5 (1 - (1 - i1)) (1 - i1) prev)
                (k_loop5 dok dfun (zL * 2) (Z.of_nat ec') (Z.of_nat n) (1 - (1 - i1)) (1 - i1) zL B ms pen (Z.of_nat (sk n)) (Z.of_nat skipp))
                (pstep u s1 s2 B n skipp (sk n) prev ec') (jE n - j0) j0 _ _ HR0) as HF.
  assert (Hstep : forall k s t, (j0 <= k < j0 + (jE n - j0))%nat -> R5 (1 - (1 - i1)) (1 - i1) prev s t ->
            R5 (1 - (1 - i1)) (1 - i1) prev
               (k_loop5 dok dfun (zL * 2) (Z.of_nat ec') (Z.of_nat n) (1 - (1 - i1)) (1 - i1) zL B ms pen (Z.of_nat (sk n)) (Z.of_nat skipp) s (Z.of_nat k))
               (pstep u s1 s2 B n skipp (sk n) prev ec' t k)).
  { intros k s t Hk HRk. apply loop5_step; try assumption; try reflexivity; unfold j0 in Hk; lia. }
  specialize (HF Hstep). clear Hstep.
  destruct (fold_left (k_loop5 dok dfun (zL * 2) (Z.of_nat ec') (Z.of_nat n) (1 - (1 - i1)) (1 - i1) zL B ms pen (Z.of_nat (sk n)) (Z.of_nat skipp))
              (zrange (Z.of_nat j0) (Z.of_nat (j0 + (jE n - j0)))) (dtw2, Z.of_nat n, true, Z.of_nat sc1, false, false))
    as [[[[[dtw3 ecn3] ok3] sc3] sf3] brk3].
  destruct (fold_left (pstep u s1 s2 B n skipp (sk n) prev ec') (seq j0 (jE n - j0)) pst0) as [cur3 psc3 psm3 pecn3 pstop3].
  unfold R5 in HF. cbn [p_cur p_sc p_smaller p_ecn p_stop] in HF.
  destruct HF as (Hl3 & Hprev3 & Hcur3 & Hlc3 & -> & -> & -> & -> & ->).
  (* psi relaxation at the end of series 1 *)
  rewrite zeqb_nat0, zeqb_nat. replace (zr - 1 - Z.of_nat n) with (Z.of_nat (r - 1 - n)) by lia. rewrite zleb_nat.
  cbn [p_cur p_sc p_ecn].
  assert (Eread : (jE n =? c)%nat = true ->
            aget dtw3 ((1 - i1) * zL + zc - Z.of_nat (sk n)) = rget cur3 (jE n - sk n)).
  { intros E. apply Nat.eqb_eq in E.
    replace ((1 - i1) * zL + zc - Z.of_nat (sk n)) with ((1 - i1) * zL + Z.of_nat (jE n - sk n)) by lia. apply Hcur3. lia. }
  assert (Einb : (jE n =? c)%nat = true -> inb (zL * 2) ((1 - i1) * zL + zc - Z.of_nat (sk n)) = true).
  { intros E. apply Nat.eqb_eq in E.
    replace ((1 - i1) * zL + zc - Z.of_nat (sk n)) with ((1 - i1) * zL + Z.of_nat (jE n - sk n)) by lia.
    apply inb_row; [exact Hi1'|lia]. }
  destruct (negb (psi_1e u =? 0)%nat) eqn:E1; cbn [andb].
  2:{ repeat split; try assumption; try reflexivity; lia. }
  destruct (jE n =? c)%nat eqn:E2; cbn [andb].
  2:{ repeat split; try assumption; try reflexivity; lia. }
  destruct (r - 1 - n <=? psi_1e u)%nat eqn:E3.
  2:{ repeat split; try assumption; try reflexivity; lia. }
  rewrite Eread, Einb by reflexivity. cbn [andb]. unfold cltb, cmin.
  destruct (cleb ps' (rget cur3 (jE n - sk n))); cbn [negb];
  repeat split; try assumption; try reflexivity; lia.
Qed.
(* ------------------------------------------------------------------ after the rows *)
(* the psi_2e scan of the last row *)
Lemma loop6_spec dtw i1 cur lo n ps : (i1 = 0 \/ i1 = 1) -> rowis LL dtw i1 cur -> (lo + n <= LL)%nat ->
  fold_left (k_loop6 dtw (zL * 2) i1 zL) (zrange (Z.of_nat lo) (Z.of_nat (lo + n))) (true, ps) =
  (true, cmin (cmin_list (map (rget cur) (seq lo n))) ps).
Proof.
  intros Hi1 Hrow Hn. rewrite <- fold_cmin.
  pose (R := fun (s : st6) (t : cost) => s = (true, t)).
  change (R (fold_left (k_loop6 dtw (zL * 2) i1 zL) (zrange (Z.of_nat lo) (Z.of_nat (lo + n))) (true, ps))
            (fold_left (fun p x => cmin p x) (map (rget cur) (seq lo n)) ps)).
  rewrite fold_left_map'.
  apply (fold_sim R (k_loop6 dtw (zL * 2) i1 zL) (fun p q => cmin p (rget cur q))); [reflexivity|].
  intros k s t Hk ->. unfold R, k_loop6. cbv zeta.
  rewrite !inb_row by (try assumption; lia). rewrite !Hrow by lia. cbn [andb].
  unfold cltb, cmin. destruct (cleb t (rget cur k)); reflexivity.
Qed.

Lemma prows_last : (negb (psi_1e u =? 0)%nat = true) ->
  let '(cur, skp, ps, _, _) := prows u s1 s2 B r in cle ps (rget cur (c - skp)).
Proof.
  intros Hp. replace (prows u s1 s2 B r) with (prows u s1 s2 B (S (r - 1))) by (f_equal; lia). cbn [prows].
  destruct (prows u s1 s2 B (r - 1)) as [[[[prev skipp] ps'] sc'] ec'].
  destruct (prow_step u s1 s2 B (r - 1) skipp prev sc' ec') as [[cur sc2] ec2].
  pose proof (geom_last u s1 s2 Hw Hr Hc) as GL.
  rewrite GL, Hp, Nat.eqb_refl. replace (r - 1 - (r - 1))%nat with 0%nat by lia. cbn [andb Nat.leb].
  apply cmin_r.
Qed.

Theorem k_canon_refines junk :
  k_canon dok dfun junk zr zc zp1b zp1e zp2b zp2e dl ldiff w B ms pen = (distp_value u s1 s2 B, true).
Proof.
  unfold k_canon, k_core. replace (ldiff + 2 * w + 1) with (ldiff + 2 * w + 1) by reflexivity. rewrite c_length.
  destruct (init_spec junk) as (dtw0 & E0 & Hl0 & Hrow0).
  destruct (fold_left (k_loop1 (zL * 2)) (zrange 0 (zL * 2)) (amake junk (zL * 2), true)) as [d1 o1].
  rewrite E0.
  (* the rows *)
  assert (HR : RowR r (fold_left (k_loop3 k_loop4 (k_loop5 dok dfun) zp1b zp1e dl_window (zL * 2) zr zc ldiff_window zL B ms pen)
                         (zrange 0 zr) (dtw0, zp2b, 1, 0, true, Inf, 0, 0))).
  { apply (fold_zrange_inv RowR).
    - unfold RowR. cbn [prows]. repeat split; try assumption; try reflexivity; [left; reflexivity|].
      unfold row_init. rewrite map_length, seq_length. reflexivity.
    - intros k s Hk Hs. apply row_step; assumption. }
  destruct (fold_left (k_loop3 k_loop4 (k_loop5 dok dfun) zp1b zp1e dl_window (zL * 2) zr zc ldiff_window zL B ms pen)
              (zrange 0 zr) (dtw0, zp2b, 1, 0, true, Inf, 0, 0)) as [[[[[[[dtw ec] i0] i1] ok] ps] sc] skip].
  unfold RowR in HR. unfold distp_value.
  pose proof prows_last as HPL.
  destruct (prows u s1 s2 B r) as [[[[cur skipp] ps'] sc'] ec'].
  destruct HR as (Hlen & Hi1 & Hi0 & Hrow & Hlc & -> & -> & -> & -> & -> & Hskp).
  set (m := (r - 1)%nat) in *. assert (Er : r = S m) by (unfold m; lia). rewrite Er in Hskp.
  assert (Hm : (m < r)%nat) by lia.
  destruct (geom_row u s1 s2 Hw Hr Hc m Hm) as (G1 & G2 & G3 & G4 & G5 & G6).
  pose proof (geom_last u s1 s2 Hw Hr Hc) as GL. fold m in GL.
  replace (if w - 1 <? 0 then zc + (w - 1) else zc) with zc by (destruct (Z.ltb_spec (w - 1) 0); [lia|reflexivity]).
  assert (Eic : zL * i1 + zc - Z.of_nat skipp = i1 * zL + Z.of_nat (c - skipp)) by lia.
  rewrite Eic, inb_row by (try assumption; lia). rewrite Hrow by lia. cbn [andb].
  rewrite !zeqb_nat0. unfold final_value. cbv zeta.
  destruct (psi_1e u =? 0)%nat eqn:E1; destruct (psi_2e u =? 0)%nat eqn:E2; cbn [negb orb andb].
  - unfold cltb. reflexivity.
  - (* only the end of series 2 relaxed *)
    replace (Z.max 0 (zc - Z.of_nat skipp - zp2e)) with (Z.of_nat (c - skipp - psi_2e u)) by lia.
    replace (zc - Z.of_nat skipp + 1) with (Z.of_nat ((c - skipp - psi_2e u) + ((c - skipp) + 1 - (c - skipp - psi_2e u)))) by lia.
    rewrite (loop6_spec dtw i1 cur) by (try assumption; lia). unfold slice_min, cltb. reflexivity.
  - (* only the end of series 1 relaxed: psi_shortest already holds the corner *)
    specialize (HPL eq_refl).
    replace (cmin (rget cur (c - skipp)) ps') with ps'
      by (symmetry; rewrite cmin_comm; unfold cmin; unfold cle in HPL; rewrite HPL; reflexivity).
    unfold cltb. reflexivity.
  - replace (Z.max 0 (zc - Z.of_nat skipp - zp2e)) with (Z.of_nat (c - skipp - psi_2e u)) by lia.
    replace (zc - Z.of_nat skipp + 1) with (Z.of_nat ((c - skipp - psi_2e u) + ((c - skipp) + 1 - (c - skipp - psi_2e u)))) by lia.
    rewrite (loop6_spec dtw i1 cur) by (try assumption; lia). unfold slice_min, cltb. reflexivity.
Qed.
End Refine.
