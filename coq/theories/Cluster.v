(* Hierarchical.fit: agglomerative merging on the upper-triangular distance
   matrix.  The matrix is modelled by the list of its finite entries; merging i2
   into i1 blanks every entry that touches i2.  Which minimal entry is taken
   (first in row-major order, or the order hook's choice) and whether the merge
   hook swaps the pair are abstract -- the theorems hold for every such policy. *)
From Coq Require Import ZArith Bool List Lia.
From DV Require Import Prelude.
Import ListNotations.
Open Scope Z_scope.

Record entry := { er : nat; ec : nat; ed : Z }.
Definition touches (i : nat) (e : entry) : bool := (er e =? i)%nat || (ec e =? i)%nat.
Definition blank (i2 : nat) (es : list entry) : list entry := filter (fun e => negb (touches i2 e)) es.

Record merge := { m_into : nat; m_from : nat; m_dist : Z }.

Section Fit.
Variable choose : list entry -> option entry.
Hypothesis choose_in : forall es e, choose es = Some e -> In e es.
Hypothesis choose_min : forall es e e', choose es = Some e -> In e' es -> ed e <= ed e'.
Hypothesis choose_none : forall es, choose es = None -> es = [].
Variable swap : entry -> bool.
Variable maxd : Z.

Definition mk (e : entry) : merge :=
  if swap e then {| m_into := ec e; m_from := er e; m_dist := ed e |}
  else {| m_into := er e; m_from := ec e; m_dist := ed e |}.

(* (merges performed, entries left) ; fuel = nb_series - 1 *)
Fixpoint run (fuel : nat) (es : list entry) : list merge * list entry :=
  match fuel with
  | O => ([], es)
  | S f =>
    match choose es with
    | None => ([], es)
    | Some e =>
      if ed e <=? maxd then
        let m := mk e in
        let '(ms, rest) := run f (blank (m_from m) es) in (m :: ms, rest)
      else ([], es)
    end
  end.

Lemma blank_incl i es : incl (blank i es) es.
Proof. intros e H. unfold blank in H. apply filter_In in H. tauto. Qed.

Lemma run_rest_incl : forall fuel es, incl (snd (run fuel es)) es.
Proof.
  induction fuel as [|f IH]; intros es; simpl; [apply incl_refl|].
  destruct (choose es) as [e|]; [|apply incl_refl].
  destruct (ed e <=? maxd); [|apply incl_refl].
  specialize (IH (blank (m_from (mk e)) es)). destruct (run f (blank (m_from (mk e)) es)) as [ms rest].
  simpl in *. eapply incl_tran; [exact IH|apply blank_incl].
Qed.

(* every merge comes from an entry of the matrix it was run on *)
Lemma run_merges_from_entries : forall fuel es m, In m (fst (run fuel es)) ->
  exists e, In e es /\ m = mk e.
Proof.
  induction fuel as [|f IH]; intros es m H; simpl in H; [destruct H|].
  destruct (choose es) as [e|] eqn:Ec; [|destruct H].
  destruct (ed e <=? maxd); [|destruct H].
  destruct (run f (blank (m_from (mk e)) es)) as [ms rest] eqn:Er. simpl in H.
  destruct H as [<-|H].
  - exists e. split; [apply choose_in; exact Ec|reflexivity].
  - destruct (IH (blank (m_from (mk e)) es) m) as [e' [Hin Hm]]; [rewrite Er; exact H|].
    exists e'. split; [apply blank_incl in Hin; exact Hin|exact Hm].
Qed.

Lemma mk_dist e : m_dist (mk e) = ed e.
Proof. unfold mk. destruct (swap e); reflexivity. Qed.

(* merge distances are non-decreasing *)
Fixpoint nondecreasing (l : list Z) : Prop :=
  match l with a :: ((b :: _) as t) => a <= b /\ nondecreasing t | _ => True end.

Theorem merges_nondecreasing : forall fuel es, nondecreasing (map m_dist (fst (run fuel es))).
Proof.
  induction fuel as [|f IH]; intros es; simpl; [exact I|].
  destruct (choose es) as [e|] eqn:Ec; [|exact I].
  destruct (ed e <=? maxd); [|exact I].
  specialize (IH (blank (m_from (mk e)) es)).
  destruct (run f (blank (m_from (mk e)) es)) as [ms rest] eqn:Er. simpl in *.
  destruct ms as [|m2 ms]; [exact I|]. simpl. split; [|exact IH].
  destruct (run_merges_from_entries f (blank (m_from (mk e)) es) m2) as [e2 [Hin ->]]; [rewrite Er; left; reflexivity|].
  rewrite !mk_dist. apply (choose_min es e e2 Ec). apply blank_incl in Hin. exact Hin.
Qed.

Theorem merges_bounded : forall fuel es m, In m (fst (run fuel es)) -> m_dist m <= maxd.
Proof.
  induction fuel as [|f IH]; intros es m H; simpl in H; [destruct H|].
  destruct (choose es) as [e|] eqn:Ec; [|destruct H].
  destruct (Z.leb_spec (ed e) maxd); [|destruct H].
  destruct (run f (blank (m_from (mk e)) es)) as [ms rest] eqn:Er. simpl in H.
  destruct H as [<-|H]; [rewrite mk_dist; lia|].
  apply (IH (blank (m_from (mk e)) es)). rewrite Er. exact H.
Qed.

(* it stops only when nothing is left within max_dist (or the fuel = n-1 merges is used up) *)
Theorem stops_when_none_left : forall fuel es,
  (length (fst (run fuel es)) < fuel)%nat -> forall e, In e (snd (run fuel es)) -> maxd < ed e.
Proof.
  induction fuel as [|f IH]; intros es Hl e He; simpl in *; [lia|].
  destruct (choose es) as [e0|] eqn:Ec.
  - destruct (Z.leb_spec (ed e0) maxd).
    + destruct (run f (blank (m_from (mk e0)) es)) as [ms rest] eqn:Er. simpl in *.
      apply (IH (blank (m_from (mk e0)) es)); rewrite Er; simpl; [lia|exact He].
    + simpl in He. pose proof (choose_min es e0 e Ec He). lia.
  - simpl in He. rewrite (choose_none es Ec) in He. destruct He.
Qed.

(* an absorbed index never takes part in a later merge *)
Lemma blank_no_touch i es e : In e (blank i es) -> er e <> i /\ ec e <> i.
Proof.
  unfold blank. rewrite filter_In. intros [_ H]. unfold touches in H.
  apply negb_true_iff in H. apply orb_false_iff in H. destruct H as [H1 H2].
  apply Nat.eqb_neq in H1. apply Nat.eqb_neq in H2. auto.
Qed.

Theorem absorbed_never_reused : forall fuel es m ms rest,
  run (S fuel) es = (m :: ms, rest) ->
  forall m', In m' ms -> m_into m' <> m_from m /\ m_from m' <> m_from m.
Proof.
  intros fuel es m ms rest H m' Hm'. simpl in H.
  destruct (choose es) as [e|] eqn:Ec; [|discriminate].
  destruct (ed e <=? maxd); [|discriminate].
  destruct (run fuel (blank (m_from (mk e)) es)) as [ms0 rest0] eqn:Er. inversion H; subst. clear H.
  destruct (run_merges_from_entries fuel (blank (m_from (mk e)) es) m') as [e' [Hin ->]]; [rewrite Er; exact Hm'|].
  apply blank_no_touch in Hin. unfold mk at 1 3. destruct (swap e'); simpl; tauto.
Qed.

Theorem at_most_fuel_merges : forall fuel es, (length (fst (run fuel es)) <= fuel)%nat.
Proof.
  induction fuel as [|f IH]; intros es; simpl; [lia|].
  destruct (choose es) as [e|]; [|simpl; lia]. destruct (ed e <=? maxd); [|simpl; lia].
  specialize (IH (blank (m_from (mk e)) es)). destruct (run f (blank (m_from (mk e)) es)). simpl in *. lia.
Qed.
End Fit.

(* ------------------------------------------------------------ executable policy: first minimum in row-major order *)
Fixpoint first_min (es : list entry) : option entry :=
  match es with
  | [] => None
  | e :: t => match first_min t with
              | None => Some e
              | Some m => if ed e <=? ed m then Some e else Some m
              end
  end.

Lemma first_min_in es e : first_min es = Some e -> In e es.
Proof.
  revert e; induction es as [|a t IH]; intros e H; simpl in H; [discriminate|].
  destruct (first_min t) as [m|]; [|inversion H; left; reflexivity].
  destruct (ed a <=? ed m); inversion H; subst; [left; reflexivity|right; apply IH; reflexivity].
Qed.
Lemma first_min_min es e e' : first_min es = Some e -> In e' es -> ed e <= ed e'.
Proof.
  revert e e'; induction es as [|a t IH]; intros e e' H Hin; simpl in H; [discriminate|].
  destruct (first_min t) as [m|] eqn:Em.
  - destruct (Z.leb_spec (ed a) (ed m)); inversion H; subst; destruct Hin as [<-|Hin]; try lia.
    + specialize (IH m e' eq_refl Hin). lia.
    + apply (IH e e' eq_refl Hin).
  - inversion H; subst. destruct Hin as [<-|Hin]; [lia|]. destruct t; [destruct Hin|simpl in Em; destruct (first_min t); [destruct (ed e0 <=? ed e1)|]; discriminate].
Qed.
Lemma first_min_none es : first_min es = None -> es = [].
Proof. destruct es as [|a t]; [reflexivity|]. simpl. destruct (first_min t) as [m|]; [destruct (ed a <=? ed m)|]; discriminate. Qed.

Definition fit_model (n : nat) (maxd : Z) (es : list entry) : list merge :=
  fst (run first_min (fun _ => false) maxd (n - 1) es).
