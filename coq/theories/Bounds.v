(* Euclidean upper bound (ed.distance) and LB_Keogh lower bound (dtw.lb_keogh):
   executable models and the sandwich  LB_Keogh <= DTW <= ED. *)
From Coq Require Import ZArith Bool List Lia.
From DV Require Import Prelude Cost Grid Dtw DtwSpec Band DtwProps.
From DVGen Require Import Gen_dtw.
Import ListNotations.
Open Scope Z_scope.

Fixpoint sumf (f : nat -> Z) (n : nat) : Z :=
  match n with O => 0 | S k => sumf f k + f k end.

Lemma sumf_ext f g n : (forall i, (i < n)%nat -> f i = g i) -> sumf f n = sumf g n.
Proof. induction n as [|n IH]; intros H; simpl; [reflexivity|]. rewrite IH, H by (intros; try apply H; lia). reflexivity. Qed.

Lemma sumf_nonneg f n : (forall i, 0 <= f i) -> 0 <= sumf f n.
Proof. intros H. induction n; simpl; [lia|]. specialize (H n). lia. Qed.

(* ed.distance: common prefix pairwise, surplus elements against the last element of the shorter series *)
Definition ed_model (k : inner) (s1 s2 : list point) : Z :=
  let r := length s1 in let c := length s2 in let n := Nat.min r c in
  sumf (fun i => pdist k (nth i s1 []) (nth i s2 [])) n +
  (if (c <? r)%nat
   then sumf (fun t => pdist k (nth (n + t) s1 []) (nth (n - 1) s2 [])) (r - n)
   else sumf (fun t => pdist k (nth (n - 1) s1 []) (nth (n + t) s2 [])) (c - n)).

(* ------------------------------------------------------------ DTW <= ED *)
Lemma code_cell_le_diag pen dv a b c : cle (code_cell pen dv a b c) (cadd dv a).
Proof. unfold code_cell, cmin3. apply cadd_mono_r. eapply cle_trans; [apply cmin_l|apply cmin_l]. Qed.
Lemma code_cell_le_up pen dv a b c : cle (code_cell pen dv a b c) (cadd dv (cadd b (Fin pen))).
Proof. unfold code_cell, cmin3. apply cadd_mono_r. eapply cle_trans; [apply cmin_l|apply cmin_r]. Qed.
Lemma code_cell_le_left pen dv a b c : cle (code_cell pen dv a b c) (cadd dv (cadd c (Fin pen))).
Proof. unfold code_cell, cmin3. apply cadd_mono_r. apply cmin_r. Qed.

Section UB.
Variable u : usettings.
Variables s1 s2 : list point.
Let r := length s1.
Let c := length s2.
Let dd (i j : nat) : Z := pdist (u_inner u) (nth i s1 []) (nth j s2 []).
Hypothesis Hw : 1 <= eff_window u r c.
Hypothesis Hms : adj_max_step u = Inf.

Lemma cell_val i j : in_band r c (eff_window u r c) i j = true -> cell u s1 s2 i j = Fin (dd i j).
Proof. intros H. unfold cell, sw, sr, sc. fold r c. rewrite H. cbv zeta. rewrite Hms. reflexivity. Qed.

Lemma diag_le k : (k <= Nat.min r c)%nat -> cle (Mfun u s1 s2 k k) (Fin (sumf (fun i => dd i i) k)).
Proof.
  induction k as [|k IH]; intros Hk; [apply cle_refl|].
  unfold Mfun in *. rewrite Mf_S_S. eapply cle_trans; [apply code_cell_le_diag|].
  rewrite cell_val.
  - eapply cle_trans; [apply cadd_mono_r; apply IH; lia|]. simpl. apply cle_fin. lia.
  - apply in_band_iff. unfold band_lo, band_hi. lia.
Qed.

Lemma tail_rows_le t : adj_penalty u = 0 -> (c < r)%nat -> (1 <= c)%nat -> (t <= r - c)%nat ->
  cle (Mfun u s1 s2 (c + t) c)
      (Fin (sumf (fun i => dd i i) c + sumf (fun t' => dd (c + t') (c - 1)) t)).
Proof.
  intros Hp Hrc Hc1. induction t as [|t IH]; intros Ht.
  - rewrite Nat.add_0_r. simpl. rewrite Z.add_0_r. apply diag_le. lia.
  - destruct c as [|c'] eqn:Ec; [lia|].
    replace (S c' + S t)%nat with (S (S c' + t)) by lia.
    unfold Mfun in *. rewrite Mf_S_S. eapply cle_trans; [apply code_cell_le_up|].
    rewrite cell_val.
    + assert (HP0 : Fin (adj_penalty u) = Fin 0) by (rewrite Hp; reflexivity). rewrite HP0. rewrite cadd_0_r.
      eapply cle_trans; [apply cadd_mono_r; apply IH; lia|]. simpl.
      replace (c' - 0)%nat with c' by lia. apply cle_fin. apply Z.eq_le_incl. ring.
    + apply in_band_iff. unfold band_lo, band_hi. fold r. rewrite ?Ec. lia.
Qed.

Lemma tail_cols_le t : adj_penalty u = 0 -> (r < c)%nat -> (1 <= r)%nat -> (t <= c - r)%nat ->
  cle (Mfun u s1 s2 r (r + t))
      (Fin (sumf (fun i => dd i i) r + sumf (fun t' => dd (r - 1) (r + t')) t)).
Proof.
  intros Hp Hrc Hr1. induction t as [|t IH]; intros Ht.
  - rewrite Nat.add_0_r. simpl. rewrite Z.add_0_r. apply diag_le. lia.
  - destruct r as [|r'] eqn:Er; [lia|].
    replace (S r' + S t)%nat with (S (S r' + t)) by lia.
    unfold Mfun in *. rewrite Mf_S_S. eapply cle_trans; [apply code_cell_le_left|].
    rewrite cell_val.
    + assert (HP0 : Fin (adj_penalty u) = Fin 0) by (rewrite Hp; reflexivity). rewrite HP0. rewrite cadd_0_r.
      eapply cle_trans; [apply cadd_mono_r; apply IH; lia|]. simpl.
      replace (r' - 0)%nat with r' by lia. apply cle_fin. apply Z.eq_le_incl. ring.
    + apply in_band_iff. unfold band_lo, band_hi. fold c. rewrite ?Er. lia.
Qed.

Lemma corner_is_end : In (r, c) (end_cands u s1 s2).
Proof.
  unfold end_cands. fold r c. unfold sr, sc. fold r c. apply in_app_iff. left. apply in_map_iff.
  exists 0%nat. split; [f_equal; lia|]. apply in_seq. lia.
Qed.

Theorem dtw_le_ed : (1 <= r)%nat -> (1 <= c)%nat -> (adj_penalty u = 0 \/ r = c) ->
  cle (dtw_value u s1 s2) (Fin (ed_model (u_inner u) s1 s2)).
Proof.
  intros Hr Hc Hp. rewrite dtw_value_Mfun.
  eapply cle_trans.
  { apply cmin_list_le. apply in_map_iff. exists (r, c). split; [reflexivity|apply corner_is_end]. }
  cbn [fst snd]. unfold ed_model. fold r c.
  destruct (Nat.ltb_spec c r) as [Hlt|Hge].
  - destruct Hp as [Hp|Hp]; [|lia].
    replace (Nat.min r c) with c by lia.
    pose proof (tail_rows_le (r - c) Hp Hlt Hc (le_n _)) as H.
    replace (c + (r - c))%nat with r in H by lia. exact H.
  - destruct (Nat.eq_dec r c) as [E|NE].
    + replace (Nat.min r c) with r by lia. replace (c - r)%nat with 0%nat by lia. simpl. rewrite Z.add_0_r.
      pose proof (diag_le r ltac:(lia)) as H.
      replace (Mfun u s1 s2 r c) with (Mfun u s1 s2 r r) by (f_equal; exact E). exact H.
    + destruct Hp as [Hp|Hp]; [|lia].
      replace (Nat.min r c) with r by lia.
      pose proof (tail_cols_le (c - r) Hp ltac:(lia) Hr (le_n _)) as H.
      replace (r + (c - r))%nat with c in H by lia. exact H.
Qed.
End UB.

(* ------------------------------------------------------------ window 1, equal lengths: DTW = ED *)
Section W1.
Variable u : usettings.
Variables s1 s2 : list point.
Hypothesis Hlen : length s1 = length s2.
Hypothesis Hw : eff_window u (length s1) (length s2) = 1.
Hypothesis Hms : adj_max_step u = Inf.
Hypothesis Hpsi : u_psi u = ((0%nat, 0%nat), (0%nat, 0%nat)).
Let n := length s1.
Let dd (i j : nat) : Z := pdist (u_inner u) (nth i s1 []) (nth j s2 []).

Lemma w1_offdiag i j : (i <= n)%nat -> (j <= n)%nat -> i <> j -> Mfun u s1 s2 i j = Inf.
Proof.
  intros Hi Hj Hne. unfold Mfun. unfold psi_1b, psi_2b. rewrite Hpsi. cbn [fst snd].
  destruct i as [|i]; destruct j as [|j]; try congruence.
  - rewrite Mf_0. reflexivity.
  - rewrite Mf_S_0. reflexivity.
  - rewrite Mf_S_S. unfold code_cell.
    assert (Hc : cell u s1 s2 i j = Inf).
    { unfold cell, sw, sr, sc. rewrite Hw.
      assert (Hb : in_band (length s1) (length s2) 1 i j = false).
      { apply not_true_is_false. rewrite in_band_iff. rewrite <- Hlen. fold n.
        intros Hb. apply band_w1_equal in Hb; lia. }
      rewrite Hb. reflexivity. }
    rewrite Hc. reflexivity.
Qed.

Lemma w1_diag k : (k <= n)%nat -> Mfun u s1 s2 k k = Fin (sumf (fun i => dd i i) k).
Proof.
  induction k as [|k IH]; intros Hk.
  - unfold Mfun. rewrite Mf_0. reflexivity.
  - pose proof (w1_offdiag k (S k) ltac:(lia) Hk ltac:(lia)) as Hu.
    pose proof (w1_offdiag (S k) k Hk ltac:(lia) ltac:(lia)) as Hl.
    unfold Mfun in *. rewrite Mf_S_S. rewrite Hu, Hl, IH by lia.
    unfold code_cell, cmin3. cbn [cadd]. rewrite !cmin_inf_r.
    assert (Hc : cell u s1 s2 k k = Fin (dd k k)).
    { unfold cell, sw, sr, sc. rewrite Hw.
      assert (Hb : in_band (length s1) (length s2) 1 k k = true).
      { rewrite in_band_iff. rewrite <- Hlen. fold n. apply band_w1_equal; lia. }
      rewrite Hb. cbv zeta. rewrite Hms. reflexivity. }
    rewrite Hc. simpl. f_equal. lia.
Qed.

Theorem w1_is_ed : dtw_value u s1 s2 = Fin (ed_model (u_inner u) s1 s2).
Proof.
  rewrite dtw_value_Mfun. unfold end_cands, psi_1e, psi_2e. rewrite Hpsi. cbn [fst snd].
  unfold sr, sc. rewrite <- Hlen. fold n. cbn [Nat.min seq map app]. cbn [fst snd cmin_list].
  replace (n - 0)%nat with n by lia.
  rewrite w1_diag by lia. rewrite cmin_inf_r.
  assert (E : cmin (Fin (sumf (fun i => dd i i) n)) (Fin (sumf (fun i => dd i i) n)) = Fin (sumf (fun i => dd i i) n)).
  { unfold cmin. rewrite (cle_refl _). reflexivity. }
  rewrite E. unfold ed_model. rewrite <- Hlen. fold n.
  rewrite Nat.min_id, Nat.ltb_irrefl, Nat.sub_diag. simpl. rewrite Z.add_0_r. reflexivity.
Qed.
End W1.

(* ------------------------------------------------------------ LB_Keogh *)
Definition pd1 (k : inner) (a b : Z) : Z :=
  match k with SqEuclid => (a - b) * (a - b) | AbsDiff => Z.abs (a - b) end.

Definition zmax_list (l : list Z) : Z := match l with [] => 0 | x :: t => fold_right Z.max x t end.
Definition zmin_list (l : list Z) : Z := match l with [] => 0 | x :: t => fold_right Z.min x t end.
(* Python s[lo:hi] for 0 <= lo *)
Definition slice (s : list Z) (lo hi : Z) : list Z := firstn (Z.to_nat (hi - lo)) (skipn (Z.to_nat lo) s).

Definition lb_term (k : inner) (ci ui li : Z) : Z :=
  if ui <? ci then pd1 k ci ui else if ci <? li then pd1 k ci li else 0.

(* dtw.lb_keogh; the index arithmetic is the regenerated code (the py_lb definitions of Gen_dtw) *)
Definition lb_keogh_model (k : inner) (w : option Z) (s1 s2 : list Z) : Z :=
  let r := Z.of_nat (length s1) in let c := Z.of_nat (length s2) in
  let w := match w with None => Z.max r c | Some w => w end in
  let imin_diff := py_lb_imin_diff r c w in let imax_diff := py_lb_imax_diff r c w in
  sumf (fun i => let sl := slice s2 (py_lb_imin (Z.of_nat i) imin_diff) (py_lb_imax c (Z.of_nat i) imax_diff) in
                 lb_term k (nth i s1 0) (zmax_list sl) (zmin_list sl)) (length s1).

Definition scal (s : list Z) : list point := map (fun z => [z]) s.

Lemma fold_max_ge : forall t y x, In x (y :: t) -> x <= fold_right Z.max y t.
Proof.
  induction t as [|z t IH]; intros y x H; simpl in *.
  - destruct H as [->|[]]. lia.
  - destruct H as [->|[->|H]].
    + specialize (IH x x (or_introl eq_refl)). lia.
    + lia.
    + specialize (IH y x (or_intror H)). lia.
Qed.
Lemma fold_min_le : forall t y x, In x (y :: t) -> fold_right Z.min y t <= x.
Proof.
  induction t as [|z t IH]; intros y x H; simpl in *.
  - destruct H as [->|[]]. lia.
  - destruct H as [->|[->|H]].
    + specialize (IH x x (or_introl eq_refl)). lia.
    + lia.
    + specialize (IH y x (or_intror H)). lia.
Qed.
Lemma zmax_list_ge l x : In x l -> x <= zmax_list l.
Proof. destruct l as [|y t]; [simpl; tauto|]. apply fold_max_ge. Qed.
Lemma zmin_list_le l x : In x l -> zmin_list l <= x.
Proof. destruct l as [|y t]; [simpl; tauto|]. apply fold_min_le. Qed.

Lemma slice_In s lo hi j : 0 <= lo -> lo <= Z.of_nat j < hi -> (j < length s)%nat -> In (nth j s 0) (slice s lo hi).
Proof.
  intros Hlo Hj Hlen. unfold slice.
  assert (E : nth j s 0 = nth (j - Z.to_nat lo) (skipn (Z.to_nat lo) s) 0).
  { rewrite <- (firstn_skipn (Z.to_nat lo) s) at 1. rewrite app_nth2; rewrite firstn_length; [f_equal; lia|lia]. }
  rewrite E.
  assert (Hl : (j - Z.to_nat lo < length (skipn (Z.to_nat lo) s))%nat) by (rewrite skipn_length; lia).
  remember (skipn (Z.to_nat lo) s) as l. remember (j - Z.to_nat lo)%nat as m.
  assert (Hm : (m < Z.to_nat (hi - lo))%nat) by lia.
  clear - Hl Hm. revert m Hl Hm. generalize (Z.to_nat (hi - lo)) as q.
  induction l as [|x l IH]; intros q m Hl Hm; simpl in Hl; [lia|].
  destruct q as [|q]; [lia|]. destruct m as [|m]; simpl; [left; reflexivity|right; apply IH; lia].
Qed.

Lemma pd1_nonneg k a b : 0 <= pd1 k a b.
Proof. destruct k; simpl; [apply Z.square_nonneg|lia]. Qed.

Lemma lb_term_nonneg k ci ui li : 0 <= lb_term k ci ui li.
Proof. unfold lb_term. destruct (ui <? ci); [apply pd1_nonneg|]. destruct (ci <? li); [apply pd1_nonneg|lia]. Qed.

(* the envelope term never exceeds the distance to any value inside the envelope *)
Lemma lb_term_le k ci ui li y : li <= y <= ui -> lb_term k ci ui li <= pd1 k ci y.
Proof.
  intros Hy. unfold lb_term.
  destruct (Z.ltb_spec ui ci); [|destruct (Z.ltb_spec ci li)]; [| |apply pd1_nonneg];
    destruct k; simpl; try lia; nia.
Qed.

Lemma nth_scal s i : (i < length s)%nat -> nth i (scal s) [] = [nth i s 0].
Proof.
  intros H. unfold scal. rewrite nth_indep with (d' := (fun z => [z]) 0) by (rewrite map_length; exact H).
  exact (map_nth (fun z => [z]) s 0 i).
Qed.

Lemma pdist_scalar k a b : pdist k [a] [b] = pd1 k a b.
Proof.
  destruct k; cbn [pdist pd1]; [cbn [pdist_sq]; lia|].
  unfold pdist_abs. cbn [pdist_sq]. rewrite Z.add_0_r. rewrite <- Z.abs_square. rewrite Z.sqrt_square by apply Z.abs_nonneg. reflexivity.
Qed.

Section LB.
Variable u : usettings.
Variables s1 s2 : list Z.
Let r := length s1.
Let c := length s2.
Hypothesis Hpen : pen_ok u.
Hypothesis Hpsi : u_psi u = ((0%nat, 0%nat), (0%nat, 0%nat)).

Let lbt (i : nat) : Z :=
  let w := eff_window u r c in
  let sl := slice s2 (py_lb_imin (Z.of_nat i) (py_lb_imin_diff (Z.of_nat r) (Z.of_nat c) w))
                     (py_lb_imax (Z.of_nat c) (Z.of_nat i) (py_lb_imax_diff (Z.of_nat r) (Z.of_nat c) w)) in
  lb_term (u_inner u) (nth i s1 0) (zmax_list sl) (zmin_list sl).

Lemma lb_cell i j : (i < r)%nat -> cle (Fin (lbt i)) (cell u (scal s1) (scal s2) i j).
Proof.
  intros Hi. unfold cell, sw, sr, sc. unfold scal. rewrite !map_length. fold r c.
  destruct (in_band r c (eff_window u r c) i j) eqn:Hb; [|apply cle_inf]. cbv zeta.
  destruct (cleb _ (adj_max_step u)); [|apply cle_inf].
  apply in_band_iff in Hb. unfold band_lo, band_hi in Hb.
  assert (Hj : (j < c)%nat) by lia.
  fold (scal s1) (scal s2). rewrite !nth_scal by assumption. rewrite pdist_scalar.
  apply cle_fin. unfold lbt. cbv zeta. apply lb_term_le.
  split.
  - apply zmin_list_le. apply slice_In; [| |exact Hj];
      unfold py_lb_imin, py_lb_imax, py_lb_imin_diff, py_lb_imax_diff; lia.
  - apply zmax_list_ge. apply slice_In; [| |exact Hj];
      unfold py_lb_imin, py_lb_imax, py_lb_imin_diff, py_lb_imax_diff; lia.
Qed.

Lemma lb_rows i : (i <= r)%nat -> forall j, cle (Fin (sumf lbt i)) (Mfun u (scal s1) (scal s2) i j).
Proof.
  assert (HP : 0 <= adj_penalty u) by (apply adj_penalty_nonneg; exact Hpen).
  assert (HN : forall a b, cle (Fin 0) (Mfun u (scal s1) (scal s2) a b)).
  { intros. apply Mf_nonneg; [intros; apply cell_nonneg|exact HP]. }
  induction i as [|i IH]; intros Hi j.
  - change (sumf lbt 0) with 0. apply HN.
  - induction j as [|j IHj].
    + unfold Mfun, psi_1b. rewrite Hpsi. cbn [fst snd]. rewrite Mf_S_0. apply cle_inf.
    + unfold Mfun in *. rewrite Mf_S_S. unfold code_cell, cmin3.
      pose proof (lb_cell i j ltac:(lia)) as Hc.
      pose proof (IH ltac:(lia) j) as Hd. pose proof (IH ltac:(lia) (S j)) as Hu.
      set (dv := cell u (scal s1) (scal s2) i j) in *.
      assert (H0 : cle (Fin 0) dv) by apply cell_nonneg.
      rewrite !cadd_cmin_distr_l. repeat apply cmin_glb.
      * simpl sumf. replace (sumf lbt i + lbt i) with (lbt i + sumf lbt i) by lia.
        change (Fin (lbt i + sumf lbt i)) with (cadd (Fin (lbt i)) (Fin (sumf lbt i))).
        apply cadd_mono; assumption.
      * simpl sumf. replace (sumf lbt i + lbt i) with (lbt i + (sumf lbt i + 0)) by lia.
        change (Fin (lbt i + (sumf lbt i + 0))) with (cadd (Fin (lbt i)) (cadd (Fin (sumf lbt i)) (Fin 0))).
        apply cadd_mono; [assumption|]. apply cadd_mono; [assumption|apply cle_fin; exact HP].
      * replace (sumf lbt (S i)) with (0 + (sumf lbt (S i) + 0)) by lia.
        change (Fin (0 + (sumf lbt (S i) + 0))) with (cadd (Fin 0) (cadd (Fin (sumf lbt (S i))) (Fin 0))).
        apply cadd_mono; [assumption|]. apply cadd_mono; [exact IHj|apply cle_fin; exact HP].
Qed.

Theorem lb_keogh_le_dtw :
  cle (Fin (lb_keogh_model (u_inner u) (u_window u) s1 s2)) (dtw_value u (scal s1) (scal s2)).
Proof.
  rewrite dtw_value_Mfun.
  assert (E : lb_keogh_model (u_inner u) (u_window u) s1 s2 = sumf lbt r).
  { unfold lb_keogh_model. fold r c. apply sumf_ext. intros i Hi. unfold lbt, eff_window. reflexivity. }
  rewrite E.
  assert (G : forall l, (forall ij, In ij l -> fst ij = r) ->
              cle (Fin (sumf lbt r)) (cmin_list (map (fun ij => Mfun u (scal s1) (scal s2) (fst ij) (snd ij)) l))).
  { induction l as [|x t IH]; intros H; simpl; [apply cle_inf|].
    apply cmin_glb; [|apply IH; intros; apply H; right; assumption].
    rewrite (H x (or_introl eq_refl)). apply lb_rows. lia. }
  apply G. intros ij. unfold end_cands, psi_1e, psi_2e. rewrite Hpsi. cbn [fst snd].
  unfold sr, sc, scal. rewrite !map_length. fold r c. cbn [Nat.min seq map app].
  intros [<-|[<-|[]]]; simpl; lia.
Qed.
End LB.
