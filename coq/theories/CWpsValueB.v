(* CWpsValue.v UNDER A BOUND: on an array whose rows are Q-related to the matrix (equal, or both above the bound B), the
   part of dtw_warping_paths_ndim after the row regions returns `v <= B ? v : inf` where v is Q-related to the minimum
   over the psi-relaxed end cells - so the value returned is `bounded B` of the specification value. *)
From Coq Require Import ZArith Bool Lia List.
From DV Require Import Prelude Cost Grid Dtw DtwSpec DtwProps Prune PyDistPrune CWps CFill CExpand CFillSim CLang CDistCanon CDistProofs
  CWpsCanon CWpsCanonEu CWpsKernel CWpsValue CWpsPrune.
From DVGen Require Import Gen_cwps Gen_cfill Gen_cwpsk.
Import ListNotations.
Open Scope Z_scope.

Lemma Forall2_map_seq {A B} (R : A -> B -> Prop) (f : nat -> A) (g : nat -> B) a n :
  (forall k, (a <= k < a + n)%nat -> R (f k) (g k)) -> Forall2 R (map f (seq a n)) (map g (seq a n)).
Proof.
  revert a. induction n as [|n IH]; intros a H; cbn [seq map]; constructor.
  - apply H. lia.
  - apply IH. intros k Hk. apply H. lia.
Qed.

Section ValueB.
Variable u : usettings.
Variables s1 s2 : list point.
Variable B : cost.
Hypothesis Hr : (1 <= length s1)%nat.
Hypothesis Hc : (1 <= length s2)%nat.
Variable window0 : Z.
Hypothesis Hw : 0 <= window0.
Local Notation l1 := (Z.of_nat (length s1)).
Local Notation l2 := (Z.of_nat (length s2)).
Local Notation d := (cell u s1 s2).
Local Notation pen := (adj_penalty u).
Local Notation p1b := (psi_1b u).
Local Notation p2b := (psi_2b u).
Local Notation M := (Mfun u s1 s2).
Local Notation Qb := (Q B).
Local Notation W := (cw_width l1 l2 window0).
Local Notation shiftz := (cw_shift l1 l2 window0).
Local Notation lo := (blo l1 l2 window0).
Local Notation hi := (bhi l1 l2 window0).
Local Notation wl := ((l1 + 1) * W).
Local Notation l1n := (length s1).
Local Notation l2n := (length s2).
Hypothesis Hd : forall ri ci : nat, Z.of_nat ri < l1 ->
  ~ (lo (Z.of_nat ri) <= Z.of_nat ci < hi (Z.of_nat ri)) -> d ri ci = Inf.
Variable wps : list cost.
Hypothesis HG : GQ u s1 s2 B window0 l1n wps.

Let H1 : 1 <= l1. Proof. lia. Qed.
Let H2 : 1 <= l2. Proof. lia. Qed.

Definition rdcol (ri : nat) : cost :=
  if (l2 - shiftz (Z.of_nat ri - 1) >=? 0) && (l2 - shiftz (Z.of_nat ri - 1) <? W) then aget wps (Z.of_nat ri * W + (l2 - shiftz (Z.of_nat ri - 1))) else Inf.
Definition rdrow (ci : nat) : cost :=
  if (Z.of_nat ci - shiftz (l1 - 1) >=? 0) && (Z.of_nat ci - shiftz (l1 - 1) <? W) then aget wps (l1 * W + (Z.of_nat ci - shiftz (l1 - 1))) else Inf.

Lemma rdcol_Q (ri : nat) : (1 <= ri)%nat -> Z.of_nat ri <= l1 ->
  Qb (rdcol ri) (M ri l2n) /\
  ((l2 - shiftz (Z.of_nat ri - 1) >=? 0) && (l2 - shiftz (Z.of_nat ri - 1) <? W) = true -> inb wl (Z.of_nat ri * W + (l2 - shiftz (Z.of_nat ri - 1))) = true).
Proof.
  intros Hr1 Hr2. pose proof (W_pos l1 l2 window0 H1 H2 Hw) as HW. destruct HG as (Hlen & Hrows & _). unfold rdcol.
  destruct ((l2 - shiftz (Z.of_nat ri - 1) >=? 0) && (l2 - shiftz (Z.of_nat ri - 1) <? W)) eqn:E.
  - apply andb_true_iff in E. destruct E as [E1 E2]. rewrite Z.geb_leb in E1. apply Z.leb_le in E1. apply Z.ltb_lt in E2.
    split.
    + pose proof (Hrows ri ltac:(lia) (l2 - shiftz (Z.of_nat ri - 1)) ltac:(lia)) as HH. cbv zeta in HH. unfold rowf in HH.
      replace (Z.to_nat (l2 - shiftz (Z.of_nat ri - 1) + shiftz (Z.of_nat ri - 1))) with l2n in HH by lia. apply HH; lia.
    + intros _. unfold inb. apply andb_true_iff. split; [apply Z.leb_le|apply Z.ltb_lt]; nia.
  - split; [|discriminate]. destruct ri as [|r0]; [lia|].
    replace (M (S r0) l2n) with (M (S r0) (S (l2n - 1))) by (f_equal; lia). rewrite (M_out u s1 s2 window0 Hd); [apply Q_refl|lia|]. intros Hin.
    destruct (row_facts l1 l2 window0 H1 H2 Hw (Z.of_nat r0) (Z.of_nat (l2n - 1)) ltac:(lia) Hin) as (Hs & _).
    apply andb_false_iff in E. rewrite Z.geb_leb in E.
    replace (Z.of_nat (S r0) - 1) with (Z.of_nat r0) in E by lia.
    destruct E as [E|E]; [apply Z.leb_gt in E|apply Z.ltb_ge in E]; lia.
Qed.

Lemma rdrow_Q (ci : nat) : (1 <= ci)%nat -> Z.of_nat ci <= l2 ->
  Qb (rdrow ci) (M l1n ci) /\
  ((Z.of_nat ci - shiftz (l1 - 1) >=? 0) && (Z.of_nat ci - shiftz (l1 - 1) <? W) = true -> inb wl (l1 * W + (Z.of_nat ci - shiftz (l1 - 1))) = true).
Proof.
  intros Hc1 Hc2. pose proof (W_pos l1 l2 window0 H1 H2 Hw) as HW. destruct HG as (Hlen & Hrows & _). unfold rdrow.
  destruct ((Z.of_nat ci - shiftz (l1 - 1) >=? 0) && (Z.of_nat ci - shiftz (l1 - 1) <? W)) eqn:E.
  - apply andb_true_iff in E. destruct E as [E1 E2]. rewrite Z.geb_leb in E1. apply Z.leb_le in E1. apply Z.ltb_lt in E2.
    split.
    + pose proof (Hrows l1n (le_n _) (Z.of_nat ci - shiftz (l1 - 1)) ltac:(lia)) as HH. cbv zeta in HH. unfold rowf in HH.
      replace (Z.to_nat (Z.of_nat ci - shiftz (l1 - 1) + shiftz (l1 - 1))) with ci in HH by lia. apply HH; lia.
    + intros _. unfold inb. apply andb_true_iff. split; [apply Z.leb_le|apply Z.ltb_lt]; nia.
  - split; [|discriminate]. destruct ci as [|c0]; [lia|].
    replace (M l1n (S c0)) with (M (S (l1n - 1)) (S c0)) by (f_equal; lia). rewrite (M_out u s1 s2 window0 Hd); [apply Q_refl|lia|]. intros Hin.
    destruct (row_facts l1 l2 window0 H1 H2 Hw (Z.of_nat (l1n - 1)) (Z.of_nat c0) ltac:(lia) Hin) as (Hs & _).
    replace (Z.of_nat (l1n - 1)) with (l1 - 1) in Hs by lia.
    apply andb_false_iff in E. rewrite Z.geb_leb in E.
    destruct E as [E|E]; [apply Z.leb_gt in E|apply Z.ltb_ge in E]; lia.
Qed.

Lemma corner_in_band' : lo (l1 - 1) <= l2 - 1 < hi (l1 - 1).
Proof.
  unfold blo, bhi, band_lo, band_hi, cw_window.
  destruct (window_norm l1 l2 window0 Hw H1 H2) as [(W0 & Ww & _)|(W0 & Ww & _)]; rewrite Ww; lia.
Qed.

Lemma corner_Q : Qb (aget wps (l1 * W + l2 - shiftz (l1 - 1))) (M l1n l2n) /\ inb wl (l1 * W + l2 - shiftz (l1 - 1)) = true.
Proof.
  destruct (row_facts l1 l2 window0 H1 H2 Hw (l1 - 1) (l2 - 1) ltac:(lia) corner_in_band') as (Hs & _).
  destruct (rdcol_Q l1n ltac:(lia) ltac:(lia)) as [Hv Hi]. unfold rdcol in Hv.
  assert (E : (l2 - shiftz (l1 - 1) >=? 0) && (l2 - shiftz (l1 - 1) <? W) = true).
  { apply andb_true_iff. split; [rewrite Z.geb_leb; apply Z.leb_le|apply Z.ltb_lt]; lia. }
  rewrite E in Hv. specialize (Hi E).
  replace (l1 * W + l2 - shiftz (l1 - 1)) with (l1 * W + (l2 - shiftz (l1 - 1))) by lia. split; assumption.
Qed.

Lemma row_scan_B p1e rel0 : exists rel b,
  fold_left (c_dtw_warping_paths_ndim_loop26 shiftz (Z.of_nat p1e) l1 l2 W wps wl) (zdown l1 0) (rel0, Inf, true, false)
  = (rel, cmin_list (map (fun k => rdcol (l1n - k)) (seq 0 (S (Nat.min p1e (l1n - 1))))), true, b).
Proof.
  replace (S (Nat.min p1e (l1n - 1))) with (Nat.min l1n (S p1e)) by lia.
  apply scan_spec.
  - intros. reflexivity.
  - intros rel v k Hk. unfold c_dtw_warping_paths_ndim_loop26.
    replace (Z.of_nat l1n - Z.of_nat k) with (Z.of_nat (l1n - k)) by lia.
    destruct (Z.of_nat (l1n - k) + Z.of_nat p1e >=? l1); cbn [negb]; [|exists rel; reflexivity].
    destruct (rdcol_Q (l1n - k) ltac:(lia) ltac:(lia)) as [_ Hi]. unfold rdcol.
    destruct ((l2 - shiftz (Z.of_nat (l1n - k) - 1) >=? 0) && (l2 - shiftz (Z.of_nat (l1n - k) - 1) <? W)) eqn:E.
    + rewrite (Hi eq_refl). cbn [negb orb andb].
      destruct (cltb (aget wps (Z.of_nat (l1n - k) * W + (l2 - shiftz (Z.of_nat (l1n - k) - 1)))) v) eqn:Ec.
      * exists (Z.of_nat (l1n - k)). unfold cmin. unfold cltb in Ec. apply negb_true_iff in Ec. rewrite Ec. reflexivity.
      * exists rel. unfold cmin. unfold cltb in Ec. apply negb_false_iff in Ec. rewrite Ec. reflexivity.
    + cbn [negb orb andb]. exists rel. rewrite cmin_inf_r. reflexivity.
Qed.

Lemma col_scan_B p2e rel0 : exists rel b,
  fold_left (c_dtw_warping_paths_ndim_loop27 shiftz (Z.of_nat p2e) l1 l2 W wps wl) (zdown l2 0) (rel0, Inf, true, false)
  = (rel, cmin_list (map (fun k => rdrow (l2n - k)) (seq 0 (S (Nat.min p2e (l2n - 1))))), true, b).
Proof.
  replace (S (Nat.min p2e (l2n - 1))) with (Nat.min l2n (S p2e)) by lia.
  apply scan_spec.
  - intros. reflexivity.
  - intros rel v k Hk. unfold c_dtw_warping_paths_ndim_loop27.
    replace (Z.of_nat l2n - Z.of_nat k) with (Z.of_nat (l2n - k)) by lia.
    destruct (Z.of_nat (l2n - k) + Z.of_nat p2e >=? l2); cbn [negb]; [|exists rel; reflexivity].
    destruct (rdrow_Q (l2n - k) ltac:(lia) ltac:(lia)) as [_ Hi]. unfold rdrow.
    destruct ((Z.of_nat (l2n - k) - shiftz (l1 - 1) >=? 0) && (Z.of_nat (l2n - k) - shiftz (l1 - 1) <? W)) eqn:E.
    + rewrite (Hi eq_refl). cbn [negb orb andb].
      destruct (cltb (aget wps (l1 * W + (Z.of_nat (l2n - k) - shiftz (l1 - 1)))) v) eqn:Ec.
      * exists (Z.of_nat (l2n - k)). unfold cmin. unfold cltb in Ec. apply negb_true_iff in Ec. rewrite Ec. reflexivity.
      * exists rel. unfold cmin. unfold cltb in Ec. apply negb_false_iff in Ec. rewrite Ec. reflexivity.
    + cbn [negb orb andb]. exists rel. rewrite cmin_inf_r. reflexivity.
Qed.

(* the end cells of the specification over M (= dtw_value, DtwSpec.dtw_value_Mfun) *)
Definition end_rows (p1e : nat) : cost := cmin_list (map (fun k => M (l1n - k) l2n) (seq 0 (S (Nat.min p1e (l1n - 1))))).
Definition end_cols (p2e : nat) : cost := cmin_list (map (fun k => M l1n (l2n - k)) (seq 0 (S (Nat.min p2e (l2n - 1))))).

Lemma rows_Q p1e : Qb (cmin_list (map (fun k => rdcol (l1n - k)) (seq 0 (S (Nat.min p1e (l1n - 1)))))) (end_rows p1e).
Proof. apply Q_cmin_list. apply Forall2_map_seq. intros k Hk. apply rdcol_Q; lia. Qed.
Lemma cols_Q p2e : Qb (cmin_list (map (fun k => rdrow (l2n - k)) (seq 0 (S (Nat.min p2e (l2n - 1)))))) (end_cols p2e).
Proof. apply Q_cmin_list. apply Forall2_map_seq. intros k Hk. apply rdrow_Q; lia. Qed.

Definition end_valueB (p1e p2e : nat) : cost := cmin (end_rows p1e) (end_cols p2e).

Lemma end_rows_0 : end_rows 0 = M l1n l2n.
Proof. unfold end_rows. cbn [Nat.min seq map cmin_list]. rewrite Nat.sub_0_r, cmin_inf_r. reflexivity. Qed.
Lemma end_cols_0 : end_cols 0 = M l1n l2n.
Proof. unfold end_cols. cbn [Nat.min seq map cmin_list]. rewrite Nat.sub_0_r, cmin_inf_r. reflexivity. Qed.
Lemma end_rows_le p1e : cmin (M l1n l2n) (end_rows p1e) = end_rows p1e.
Proof. unfold end_rows. cbn [seq map cmin_list]. rewrite Nat.sub_0_r. apply cmin_idem_l. Qed.
Lemma end_cols_le p2e : cmin (M l1n l2n) (end_cols p2e) = end_cols p2e.
Proof. unfold end_cols. cbn [seq map cmin_list]. rewrite Nat.sub_0_r. apply cmin_idem_l. Qed.

(* the value the kernel returns under the bound, and the array after the optional sqrt pass *)
Theorem tail_value_B (keep : bool) (p1e p2e : nat) :
  exists wps',
    k_wtail shiftz true keep false l1 l2 W wl wl B (Z.of_nat p1e) (Z.of_nat p2e) true wps
    = (RPlain (sq_repr keep (bounded B (end_valueB p1e p2e))), wps', true) /\
    length wps' = length wps /\ forall i, 0 <= i < wl -> aget wps' i = sq_repr keep (aget wps i).
Proof.
  destruct HG as (Hlen & _ & _).
  assert (Hfin : forall v : cost, Qb v (end_valueB p1e p2e) -> exists wps',
     (let rvalue := (if cltb B v then Inf else v) in
      let '(ok, rvalue, w) := (if negb keep then
          let '(ok, w) := fold_left (c_dtw_warping_paths_ndim_loop30 wl) (zrange 0 wl) (true, wps) in
          let rvalue := (if true then (if cltb (Fin 0) rvalue then csqrt rvalue else rvalue) else rvalue) in (ok, rvalue, w)
        else (true, rvalue, wps)) in (RPlain rvalue, w, ok))
     = (RPlain (sq_repr keep (bounded B (end_valueB p1e p2e))), wps', true) /\
     length wps' = length wps /\ forall i, 0 <= i < wl -> aget wps' i = sq_repr keep (aget wps i)).
  { intros v Hv. change (cltb B v) with (negb (cleb v B)). rewrite (Q_bounded B v _ Hv). cbv zeta. destruct keep; cbn [negb sq_repr].
    - exists wps. split; [reflexivity|]. split; [reflexivity|]. intros; reflexivity.
    - destruct (sqrt_pass wl wps Hlen) as (w & E & Hl & Hcc). rewrite E. exists w. split; [reflexivity|]. split; assumption. }
  unfold k_wtail. cbv zeta. cbn [andb].
  destruct (Z.eqb_spec (Z.of_nat p1e) 0) as [E1|E1]; destruct (Z.eqb_spec (Z.of_nat p2e) 0) as [E2|E2]; cbn [andb negb].
  - destruct corner_Q as [Hv Hi]. rewrite Hi. cbn [andb]. apply Hfin.
    unfold end_valueB. replace p1e with 0%nat by lia. replace p2e with 0%nat by lia. rewrite end_rows_0, end_cols_0.
    replace (cmin (M l1n l2n) (M l1n l2n)) with (M l1n l2n) by (unfold cmin; destruct (cleb (M l1n l2n) (M l1n l2n)); reflexivity). exact Hv.
  - destruct (col_scan_B p2e l2) as (rel & b & E). rewrite E. rewrite cltb_inf_l. apply Hfin.
    unfold end_valueB. replace p1e with 0%nat by lia. rewrite end_rows_0, end_cols_le. apply cols_Q.
  - destruct (row_scan_B p1e l1) as (rel & b & E). rewrite E.
    assert (HQ : Qb (cmin_list (map (fun k => rdcol (l1n - k)) (seq 0 (S (Nat.min p1e (l1n - 1)))))) (end_valueB p1e p2e)).
    { unfold end_valueB. replace p2e with 0%nat by lia. rewrite end_cols_0, cmin_comm, end_rows_le. apply rows_Q. }
    set (a := cmin_list (map (fun k => rdcol (l1n - k)) (seq 0 (S (Nat.min p1e (l1n - 1)))))) in *.
    destruct (cltb a Inf) eqn:Ec; [apply Hfin; exact HQ|].
    assert (Ea : a = Inf) by (destruct a; [discriminate Ec|reflexivity]). rewrite Ea in HQ. apply Hfin. exact HQ.
  - destruct (row_scan_B p1e l1) as (rel & b & E). rewrite E.
    destruct (col_scan_B p2e l2) as (rel' & b' & E'). rewrite E'.
    set (a := cmin_list (map (fun k => rdcol (l1n - k)) (seq 0 (S (Nat.min p1e (l1n - 1)))))).
    set (c := cmin_list (map (fun k => rdrow (l2n - k)) (seq 0 (S (Nat.min p2e (l2n - 1)))))).
    assert (HQ : Qb (if cltb a c then a else c) (end_valueB p1e p2e)).
    { replace (if cltb a c then a else c) with (cmin a c) by (rewrite (cmin_comm a c); symmetry; apply cmin_if).
      unfold end_valueB. apply Q_cmin; [apply rows_Q|apply cols_Q]. }
    destruct (cltb a c); apply Hfin; exact HQ.
Qed.

(* the Euclidean twin: same scans, no sqrt pass *)
Theorem tail_value_B_eu (p1e p2e : nat) :
  k_wtail_eu shiftz true false l1 l2 W wl B (Z.of_nat p1e) (Z.of_nat p2e) true wps
  = (RPlain (bounded B (end_valueB p1e p2e)), wps, true).
Proof.
  assert (Hfin : forall v : cost, Qb v (end_valueB p1e p2e) ->
     (let rvalue := (if cltb B v then Inf else v) in (RPlain rvalue, wps, true)) = (RPlain (bounded B (end_valueB p1e p2e)), wps, true)).
  { intros v Hv. change (cltb B v) with (negb (cleb v B)). rewrite (Q_bounded B v _ Hv). reflexivity. }
  unfold k_wtail_eu. cbv zeta. cbn [andb].
  change c_dtw_warping_paths_ndim_euclidean_loop26 with c_dtw_warping_paths_ndim_loop26.
  change c_dtw_warping_paths_ndim_euclidean_loop27 with c_dtw_warping_paths_ndim_loop27.
  destruct (Z.eqb_spec (Z.of_nat p1e) 0) as [E1|E1]; destruct (Z.eqb_spec (Z.of_nat p2e) 0) as [E2|E2]; cbn [andb negb].
  - destruct corner_Q as [Hv Hi]. rewrite Hi. cbn [andb]. apply Hfin.
    unfold end_valueB. replace p1e with 0%nat by lia. replace p2e with 0%nat by lia. rewrite end_rows_0, end_cols_0.
    replace (cmin (M l1n l2n) (M l1n l2n)) with (M l1n l2n) by (unfold cmin; destruct (cleb (M l1n l2n) (M l1n l2n)); reflexivity). exact Hv.
  - destruct (col_scan_B p2e l2) as (rel & b & E). rewrite E. rewrite cltb_inf_l. apply Hfin.
    unfold end_valueB. replace p1e with 0%nat by lia. rewrite end_rows_0, end_cols_le. apply cols_Q.
  - destruct (row_scan_B p1e l1) as (rel & b & E). rewrite E.
    assert (HQ : Qb (cmin_list (map (fun k => rdcol (l1n - k)) (seq 0 (S (Nat.min p1e (l1n - 1)))))) (end_valueB p1e p2e)).
    { unfold end_valueB. replace p2e with 0%nat by lia. rewrite end_cols_0, cmin_comm, end_rows_le. apply rows_Q. }
    set (a := cmin_list (map (fun k => rdcol (l1n - k)) (seq 0 (S (Nat.min p1e (l1n - 1)))))) in *.
    destruct (cltb a Inf) eqn:Ec; [apply Hfin; exact HQ|].
    assert (Ea : a = Inf) by (destruct a; [discriminate Ec|reflexivity]). rewrite Ea in HQ. apply Hfin. exact HQ.
  - destruct (row_scan_B p1e l1) as (rel & b & E). rewrite E.
    destruct (col_scan_B p2e l2) as (rel' & b' & E'). rewrite E'.
    set (a := cmin_list (map (fun k => rdcol (l1n - k)) (seq 0 (S (Nat.min p1e (l1n - 1)))))).
    set (c := cmin_list (map (fun k => rdrow (l2n - k)) (seq 0 (S (Nat.min p2e (l2n - 1)))))).
    assert (HQ : Qb (if cltb a c then a else c) (end_valueB p1e p2e)).
    { replace (if cltb a c then a else c) with (cmin a c) by (rewrite (cmin_comm a c); symmetry; apply cmin_if).
      unfold end_valueB. apply Q_cmin; [apply rows_Q|apply cols_Q]. }
    destruct (cltb a c); apply Hfin; exact HQ.
Qed.
End ValueB.
