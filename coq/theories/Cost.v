(* Cost domain: integers extended with +infinity.  This is the domain every DTW
   theorem is stated for; on the integer-valued input stream used by the
   correspondence check, the implementation's double arithmetic is exact and
   coincides with it. *)
From Coq Require Import ZArith Bool Lia List.
Import ListNotations.
Open Scope Z_scope.

Inductive cost := Fin (z : Z) | Inf.

Definition cadd (a b : cost) : cost :=
  match a, b with Fin x, Fin y => Fin (x + y) | _, _ => Inf end.

Definition cleb (a b : cost) : bool :=
  match a, b with
  | _, Inf => true
  | Inf, Fin _ => false
  | Fin x, Fin y => x <=? y
  end.

Definition cle (a b : cost) : Prop := cleb a b = true.

Definition cltb (a b : cost) : bool := negb (cleb b a).

Definition cmin (a b : cost) : cost := if cleb a b then a else b.
Definition cmin3 (a b c : cost) : cost := cmin (cmin a b) c.

Definition ceqb (a b : cost) : bool :=
  match a, b with Fin x, Fin y => x =? y | Inf, Inf => true | _, _ => false end.

Definition is_inf (a : cost) : bool := match a with Inf => true | _ => false end.

Lemma cle_refl a : cle a a.
Proof. destruct a; unfold cle; simpl; auto. apply Z.leb_refl. Qed.

Lemma cle_trans a b c : cle a b -> cle b c -> cle a c.
Proof. destruct a, b, c; unfold cle; simpl; intros; auto; try discriminate. apply Z.leb_le in H, H0. apply Z.leb_le. lia. Qed.

Lemma cle_total a b : cle a b \/ cle b a.
Proof. destruct a, b; unfold cle; simpl; auto. destruct (Z.leb_spec z z0); auto. right. apply Z.leb_le. lia. Qed.

Lemma cle_antisym a b : cle a b -> cle b a -> a = b.
Proof. destruct a, b; unfold cle; simpl; intros; auto; try discriminate. apply Z.leb_le in H, H0. f_equal. lia. Qed.

Lemma cle_inf a : cle a Inf.
Proof. destruct a; reflexivity. Qed.

Lemma cadd_mono_l a b c : cle a b -> cle (cadd a c) (cadd b c).
Proof. destruct a, b, c; unfold cle; simpl; intros; auto; try discriminate. apply Z.leb_le in H. apply Z.leb_le. lia. Qed.

Lemma cadd_mono_r a b c : cle a b -> cle (cadd c a) (cadd c b).
Proof. destruct a, b, c; unfold cle; simpl; intros; auto; try discriminate. apply Z.leb_le in H. apply Z.leb_le. lia. Qed.

Lemma cadd_comm a b : cadd a b = cadd b a.
Proof. destruct a, b; simpl; auto. f_equal. lia. Qed.

Lemma cadd_assoc a b c : cadd a (cadd b c) = cadd (cadd a b) c.
Proof. destruct a, b, c; simpl; auto. f_equal. lia. Qed.

Lemma cadd_0_l a : cadd (Fin 0) a = a.
Proof. destruct a; simpl; auto. Qed.

Lemma cadd_0_r a : cadd a (Fin 0) = a.
Proof. destruct a; simpl; auto. f_equal. lia. Qed.

Lemma cadd_inf_l a : cadd Inf a = Inf.
Proof. reflexivity. Qed.

Lemma cadd_inf_r a : cadd a Inf = Inf.
Proof. destruct a; reflexivity. Qed.

Lemma cmin_l a b : cle (cmin a b) a.
Proof. unfold cmin. destruct (cleb a b) eqn:E; [apply cle_refl|]. destruct (cle_total a b) as [H|H]; [unfold cle in H; congruence|exact H]. Qed.

Lemma cmin_r a b : cle (cmin a b) b.
Proof. unfold cmin. destruct (cleb a b) eqn:E; [exact E|apply cle_refl]. Qed.

Lemma cmin_cases a b : cmin a b = a \/ cmin a b = b.
Proof. unfold cmin. destruct (cleb a b); auto. Qed.

Lemma cmin_glb a b x : cle x a -> cle x b -> cle x (cmin a b).
Proof. intros. destruct (cmin_cases a b) as [E|E]; rewrite E; auto. Qed.

Lemma cmin_comm a b : cmin a b = cmin b a.
Proof.
  apply cle_antisym; apply cmin_glb; auto using cmin_l, cmin_r.
Qed.

Lemma cmin_inf_r a : cmin a Inf = a.
Proof. unfold cmin. rewrite (cle_inf a). reflexivity. Qed.

Lemma cmin_inf_l a : cmin Inf a = a.
Proof. rewrite cmin_comm. apply cmin_inf_r. Qed.

Lemma cadd_cmin_distr_l d a b : cadd d (cmin a b) = cmin (cadd d a) (cadd d b).
Proof.
  apply cle_antisym.
  - apply cmin_glb; apply cadd_mono_r; auto using cmin_l, cmin_r.
  - destruct (cmin_cases a b) as [E|E]; rewrite E; auto using cmin_l, cmin_r.
Qed.

Lemma cadd_cmin_distr_r d a b : cadd (cmin a b) d = cmin (cadd a d) (cadd b d).
Proof. rewrite cadd_comm, cadd_cmin_distr_l. f_equal; apply cadd_comm. Qed.

Lemma cle_fin x y : cle (Fin x) (Fin y) <-> x <= y.
Proof. unfold cle; simpl. apply Z.leb_le. Qed.

Lemma cleb_false_lt a b : cleb a b = false -> cle b a /\ a <> b.
Proof.
  intros H. split.
  - destruct (cle_total a b) as [H1|H1]; [unfold cle in H1; congruence|exact H1].
  - intros ->. pose proof (cle_refl b). unfold cle in *. congruence.
Qed.

(* minimum of a list of costs *)
Fixpoint cmin_list (l : list cost) : cost :=
  match l with [] => Inf | x :: t => cmin x (cmin_list t) end.

Lemma cmin_list_le l x : In x l -> cle (cmin_list l) x.
Proof.
  induction l as [|y t IH]; simpl; [tauto|]. intros [->|H].
  - apply cmin_l.
  - eapply cle_trans; [apply cmin_r|auto].
Qed.

Lemma cmin_list_in l : cmin_list l = Inf \/ In (cmin_list l) l.
Proof.
  induction l as [|y t IH]; simpl; auto.
  destruct (cmin_cases y (cmin_list t)) as [E|E]; rewrite E; auto.
  destruct IH as [H|H]; auto.
Qed.
