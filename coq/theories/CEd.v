(* The Euclidean distance / upper-bound routines of the C engine (dd_ed.c, and the ub_euclidean* wrappers of
   dd_dtw.c), regenerated WHOLE by tools/cfun.py into Gen_ced.v, compute the model of ed.distance
   (Bounds.ed_model: common prefix pairwise, surplus elements against the last element of the shorter series)
   with every access in range.  These are the functions the distance kernels call for only_ub and for the
   bound of use_pruning: composing with CDistSpec.v removes the oracle parameter of those theorems. *)
From Coq Require Import ZArith Bool List Lia.
From DV Require Import Prelude Cost Grid Dtw DtwSpec DtwProps Bounds Ndim Engines Prune CLang CDistCanon CDistTie CDistProofs CDistSpec.
From DVGen Require Import Gen_cdist.
From DVGen Require Import Gen_ced.
Import ListNotations.
Open Scope Z_scope.

Lemma fold_sumf (step : bool * cost -> Z -> bool * cost) (g : nat -> Z) (a : nat) :
  forall n acc,
  (forall k ub, (k < n)%nat -> step (true, Fin ub) (Z.of_nat (a + k)) = (true, Fin (ub + g k))) ->
  fold_left step (zrange (Z.of_nat a) (Z.of_nat (a + n))) (true, Fin acc) = (true, Fin (acc + sumf g n)).
Proof.
  induction n as [|n IH]; intros acc H.
  - rewrite Nat.add_0_r, zrange_nil by lia. cbn. f_equal. f_equal. lia.
  - replace (Z.of_nat (a + S n)) with (Z.of_nat (a + n) + 1) by lia. rewrite zrange_snoc by lia.
    rewrite fold_left_app, IH by (intros; apply H; lia). cbn [fold_left sumf].
    rewrite H by lia. f_equal. f_equal. lia.
Qed.

Lemma zmin_nat a b : Z.min (Z.of_nat a) (Z.of_nat b) = Z.of_nat (Nat.min a b).
Proof. lia. Qed.

(* ------------------------------------------------------------------ one-dimensional series *)
Section OneDim.
Variables f1 f2 : list Z.
Local Notation r := (length f1).
Local Notation c := (length f2).
Hypothesis Hr : (1 <= r)%nat.
Hypothesis Hc : (1 <= c)%nat.

Lemma pd_scal k i j : (i < r)%nat -> (j < c)%nat ->
  pdist k (nth i (scal f1) []) (nth j (scal f2) []) = pd1 k (nth i f1 0) (nth j f2 0).
Proof. intros Hi Hj. rewrite !nth_scal by assumption. apply pdist_scalar. Qed.

Theorem c_euclidean_distance_squared_spec :
  c_euclidean_distance_squared f1 (Z.of_nat r) f2 (Z.of_nat c) = (RPlain (Fin (ed_model SqEuclid (scal f1) (scal f2))), true).
Proof.
  unfold c_euclidean_distance_squared, ed_model. rewrite !scal_length. cbv zeta. rewrite zmin_nat.
  set (n := Nat.min r c).
  change 0 with (Z.of_nat 0) at 1. change (Z.of_nat n) with (Z.of_nat (0 + n)) at 1.
  rewrite (fold_sumf _ (fun i => pdist SqEuclid (nth i (scal f1) []) (nth i (scal f2) []))).
  2:{ intros k ub Hk. unfold c_euclidean_distance_squared_loop1. cbn [Nat.add].
      rewrite !inb_nat, !sget_nat by (unfold n in Hk; lia). rewrite pd_scal by (unfold n in Hk; lia). reflexivity. }
  destruct (Z.gtb_spec (Z.of_nat r) (Z.of_nat c)) as [Hgt|Hle].
  - replace (c <? r)%nat with true by (symmetry; apply Nat.ltb_lt; lia).
    replace (Z.of_nat r) with (Z.of_nat (n + (r - n))) at 2 by (unfold n; lia).
    rewrite (fold_sumf _ (fun t => pdist SqEuclid (nth (n + t) (scal f1) []) (nth (n - 1) (scal f2) []))).
    2:{ intros k ub Hk. unfold c_euclidean_distance_squared_loop2.
        replace (Z.of_nat n - 1) with (Z.of_nat (n - 1)) by (unfold n; lia).
        rewrite !inb_nat, !sget_nat by (unfold n in *; lia). rewrite pd_scal by (unfold n in *; lia). reflexivity. }
    do 3 f_equal; lia.
  - destruct (Z.ltb_spec (Z.of_nat r) (Z.of_nat c)) as [Hlt|Hge].
    + replace (c <? r)%nat with false by (symmetry; apply Nat.ltb_ge; lia).
      replace (Z.of_nat c) with (Z.of_nat (n + (c - n))) at 2 by (unfold n; lia).
      rewrite (fold_sumf _ (fun t => pdist SqEuclid (nth (n - 1) (scal f1) []) (nth (n + t) (scal f2) []))).
      2:{ intros k ub Hk. unfold c_euclidean_distance_squared_loop3.
          replace (Z.of_nat n - 1) with (Z.of_nat (n - 1)) by (unfold n; lia).
          rewrite !inb_nat, !sget_nat by (unfold n in *; lia). rewrite pd_scal by (unfold n in *; lia). reflexivity. }
      do 3 f_equal; lia.
    + replace (c <? r)%nat with false by (symmetry; apply Nat.ltb_ge; lia).
      replace (c - n)%nat with 0%nat by (unfold n; lia). cbn [sumf]. do 3 f_equal; lia.
Qed.

Theorem c_euclidean_distance_euclidean_spec :
  c_euclidean_distance_euclidean f1 (Z.of_nat r) f2 (Z.of_nat c) = (RPlain (Fin (ed_model AbsDiff (scal f1) (scal f2))), true).
Proof.
  unfold c_euclidean_distance_euclidean, ed_model. rewrite !scal_length. cbv zeta. rewrite zmin_nat.
  set (n := Nat.min r c).
  change 0 with (Z.of_nat 0) at 1. change (Z.of_nat n) with (Z.of_nat (0 + n)) at 1.
  rewrite (fold_sumf _ (fun i => pdist AbsDiff (nth i (scal f1) []) (nth i (scal f2) []))).
  2:{ intros k ub Hk. unfold c_euclidean_distance_euclidean_loop1. cbn [Nat.add].
      rewrite !inb_nat, !sget_nat by (unfold n in Hk; lia). rewrite pd_scal by (unfold n in Hk; lia). reflexivity. }
  destruct (Z.gtb_spec (Z.of_nat r) (Z.of_nat c)) as [Hgt|Hle].
  - replace (c <? r)%nat with true by (symmetry; apply Nat.ltb_lt; lia).
    replace (Z.of_nat r) with (Z.of_nat (n + (r - n))) at 2 by (unfold n; lia).
    rewrite (fold_sumf _ (fun t => pdist AbsDiff (nth (n + t) (scal f1) []) (nth (n - 1) (scal f2) []))).
    2:{ intros k ub Hk. unfold c_euclidean_distance_euclidean_loop2.
        replace (Z.of_nat n - 1) with (Z.of_nat (n - 1)) by (unfold n; lia).
        rewrite !inb_nat, !sget_nat by (unfold n in *; lia). rewrite pd_scal by (unfold n in *; lia). reflexivity. }
    do 3 f_equal; lia.
  - destruct (Z.ltb_spec (Z.of_nat r) (Z.of_nat c)) as [Hlt|Hge].
    + replace (c <? r)%nat with false by (symmetry; apply Nat.ltb_ge; lia).
      replace (Z.of_nat c) with (Z.of_nat (n + (c - n))) at 2 by (unfold n; lia).
      rewrite (fold_sumf _ (fun t => pdist AbsDiff (nth (n - 1) (scal f1) []) (nth (n + t) (scal f2) []))).
      2:{ intros k ub Hk. unfold c_euclidean_distance_euclidean_loop3.
          replace (Z.of_nat n - 1) with (Z.of_nat (n - 1)) by (unfold n; lia).
          rewrite !inb_nat, !sget_nat by (unfold n in *; lia). rewrite pd_scal by (unfold n in *; lia). reflexivity. }
      do 3 f_equal; lia.
    + replace (c <? r)%nat with false by (symmetry; apply Nat.ltb_ge; lia).
      replace (c - n)%nat with 0%nat by (unfold n; lia). cbn [sumf]. do 3 f_equal; lia.
Qed.
End OneDim.

(* ------------------------------------------------------------------ series of d-dimensional points *)
Section NDim.
Variables (s1 s2 : list point) (d : nat).
Hypothesis Hd1 : forall p, In p s1 -> length p = d.
Hypothesis Hd2 : forall p, In p s2 -> length p = d.
Local Notation r := (length s1).
Local Notation c := (length s2).
Local Notation f1 := (concat s1).
Local Notation f2 := (concat s2).
Local Notation zr := (Z.of_nat r).
Local Notation zc := (Z.of_nat c).
Local Notation zd := (Z.of_nat d).
Hypothesis Hr : (1 <= r)%nat.
Hypothesis Hc : (1 <= c)%nat.

(* the coordinate loop for the pair of points (i, j) *)
Lemma nd_fold i j : (i < r)%nat -> (j < c)%nat ->
  fold_left (nd_step (Z.of_nat i * zd) (Z.of_nat j * zd) zr zc zd f1 f2) (zrange 0 zd) (Fin 0, true) =
  (Fin (pdist_sq (nth i s1 []) (nth j s2 [])), true).
Proof. intros Hi Hj. exact (nd_acc_value s1 s2 d Hd1 Hd2 i j Hi Hj). Qed.

Ltac nd_loop tie :=
  rewrite (fold_left_ext _ _ _ _ tie), nd_fold by lia.

Lemma sq_loop1 k ub : (k < Nat.min r c)%nat ->
  c_euclidean_distance_ndim_squared_loop1 zr zc zd f1 f2 (true, Fin ub) (Z.of_nat k) =
  (true, Fin (ub + pdist SqEuclid (nth k s1 []) (nth k s2 []))).
Proof.
  intros Hk. unfold c_euclidean_distance_ndim_squared_loop1. cbv zeta.
  rewrite (fold_left_ext _ (nd_step (Z.of_nat k * zd) (Z.of_nat k * zd) zr zc zd f1 f2))
    by (intros [a b] x; reflexivity).
  rewrite nd_fold by lia. reflexivity.
Qed.
Lemma sq_loop3 n k ub : (1 <= n)%nat -> (n - 1 < c)%nat -> (k < r)%nat ->
  c_euclidean_distance_ndim_squared_loop3 zr zc (Z.of_nat n) zd f1 f2 (true, Fin ub) (Z.of_nat k) =
  (true, Fin (ub + pdist SqEuclid (nth k s1 []) (nth (n - 1) s2 []))).
Proof.
  intros Hn Hn' Hk. unfold c_euclidean_distance_ndim_squared_loop3. cbv zeta.
  replace (Z.of_nat n - 1) with (Z.of_nat (n - 1)) by lia.
  rewrite (fold_left_ext _ (nd_step (Z.of_nat k * zd) (Z.of_nat (n - 1) * zd) zr zc zd f1 f2))
    by (intros [a b] x; unfold c_euclidean_distance_ndim_squared_loop4; replace (Z.of_nat n - 1) with (Z.of_nat (n - 1)) by lia; reflexivity).
  rewrite nd_fold by lia. reflexivity.
Qed.
Lemma sq_loop5 n k ub : (1 <= n)%nat -> (n - 1 < r)%nat -> (k < c)%nat ->
  c_euclidean_distance_ndim_squared_loop5 zr zc (Z.of_nat n) zd f1 f2 (true, Fin ub) (Z.of_nat k) =
  (true, Fin (ub + pdist SqEuclid (nth (n - 1) s1 []) (nth k s2 []))).
Proof.
  intros Hn Hn' Hk. unfold c_euclidean_distance_ndim_squared_loop5. cbv zeta.
  rewrite (fold_left_ext _ (nd_step (Z.of_nat (n - 1) * zd) (Z.of_nat k * zd) zr zc zd f1 f2))
    by (intros [a b] x; unfold c_euclidean_distance_ndim_squared_loop6; replace (Z.of_nat n - 1) with (Z.of_nat (n - 1)) by lia; reflexivity).
  rewrite nd_fold by lia. reflexivity.
Qed.

Theorem c_euclidean_distance_ndim_squared_spec :
  c_euclidean_distance_ndim_squared f1 zr f2 zc zd = (RPlain (Fin (ed_model SqEuclid s1 s2)), true).
Proof.
  unfold c_euclidean_distance_ndim_squared, ed_model. cbv zeta. rewrite zmin_nat.
  set (n := Nat.min r c).
  change 0 with (Z.of_nat 0) at 1. change (Z.of_nat n) with (Z.of_nat (0 + n)) at 1.
  rewrite (fold_sumf _ (fun i => pdist SqEuclid (nth i s1 []) (nth i s2 []))) by (intros k ub Hk; cbn [Nat.add]; apply sq_loop1; exact Hk).
  destruct (Z.gtb_spec zr zc) as [Hgt|Hle].
  - replace (c <? r)%nat with true by (symmetry; apply Nat.ltb_lt; lia).
    replace zr with (Z.of_nat (n + (r - n))) at 2 by (unfold n; lia).
    rewrite (fold_sumf _ (fun t => pdist SqEuclid (nth (n + t) s1 []) (nth (n - 1) s2 [])))
      by (intros k ub Hk; apply sq_loop3; unfold n in *; lia).
    do 3 f_equal; lia.
  - destruct (Z.ltb_spec zr zc) as [Hlt|Hge].
    + replace (c <? r)%nat with false by (symmetry; apply Nat.ltb_ge; lia).
      replace zc with (Z.of_nat (n + (c - n))) at 2 by (unfold n; lia).
      rewrite (fold_sumf _ (fun t => pdist SqEuclid (nth (n - 1) s1 []) (nth (n + t) s2 [])))
        by (intros k ub Hk; apply sq_loop5; unfold n in *; lia).
      do 3 f_equal; lia.
    + replace (c <? r)%nat with false by (symmetry; apply Nat.ltb_ge; lia).
      replace (c - n)%nat with 0%nat by (unfold n; lia). cbn [sumf]. do 3 f_equal; lia.
Qed.

Lemma eu_loop1 k ub : (k < Nat.min r c)%nat ->
  c_euclidean_distance_ndim_euclidean_loop1 zr zc zd f1 f2 (true, Fin ub) (Z.of_nat k) =
  (true, Fin (ub + pdist AbsDiff (nth k s1 []) (nth k s2 []))).
Proof.
  intros Hk. unfold c_euclidean_distance_ndim_euclidean_loop1. cbv zeta.
  rewrite (fold_left_ext _ (nd_step (Z.of_nat k * zd) (Z.of_nat k * zd) zr zc zd f1 f2))
    by (intros [a b] x; reflexivity).
  rewrite nd_fold by lia. reflexivity.
Qed.
Lemma eu_loop3 n k ub : (1 <= n)%nat -> (n - 1 < c)%nat -> (k < r)%nat ->
  c_euclidean_distance_ndim_euclidean_loop3 zr zc (Z.of_nat n) zd f1 f2 (true, Fin ub) (Z.of_nat k) =
  (true, Fin (ub + pdist AbsDiff (nth k s1 []) (nth (n - 1) s2 []))).
Proof.
  intros Hn Hn' Hk. unfold c_euclidean_distance_ndim_euclidean_loop3. cbv zeta.
  rewrite (fold_left_ext _ (nd_step (Z.of_nat k * zd) (Z.of_nat (n - 1) * zd) zr zc zd f1 f2))
    by (intros [a b] x; unfold c_euclidean_distance_ndim_euclidean_loop4; replace (Z.of_nat n - 1) with (Z.of_nat (n - 1)) by lia; reflexivity).
  rewrite nd_fold by lia. reflexivity.
Qed.
Lemma eu_loop5 n k ub : (1 <= n)%nat -> (n - 1 < r)%nat -> (k < c)%nat ->
  c_euclidean_distance_ndim_euclidean_loop5 zr zc (Z.of_nat n) zd f1 f2 (true, Fin ub) (Z.of_nat k) =
  (true, Fin (ub + pdist AbsDiff (nth (n - 1) s1 []) (nth k s2 []))).
Proof.
  intros Hn Hn' Hk. unfold c_euclidean_distance_ndim_euclidean_loop5. cbv zeta.
  rewrite (fold_left_ext _ (nd_step (Z.of_nat (n - 1) * zd) (Z.of_nat k * zd) zr zc zd f1 f2))
    by (intros [a b] x; unfold c_euclidean_distance_ndim_euclidean_loop6; replace (Z.of_nat n - 1) with (Z.of_nat (n - 1)) by lia; reflexivity).
  rewrite nd_fold by lia. reflexivity.
Qed.

Theorem c_euclidean_distance_ndim_euclidean_spec :
  c_euclidean_distance_ndim_euclidean f1 zr f2 zc zd = (RPlain (Fin (ed_model AbsDiff s1 s2)), true).
Proof.
  unfold c_euclidean_distance_ndim_euclidean, ed_model. cbv zeta. rewrite zmin_nat.
  set (n := Nat.min r c).
  change 0 with (Z.of_nat 0) at 1. change (Z.of_nat n) with (Z.of_nat (0 + n)) at 1.
  rewrite (fold_sumf _ (fun i => pdist AbsDiff (nth i s1 []) (nth i s2 []))) by (intros k ub Hk; cbn [Nat.add]; apply eu_loop1; exact Hk).
  destruct (Z.gtb_spec zr zc) as [Hgt|Hle].
  - replace (c <? r)%nat with true by (symmetry; apply Nat.ltb_lt; lia).
    replace zr with (Z.of_nat (n + (r - n))) at 2 by (unfold n; lia).
    rewrite (fold_sumf _ (fun t => pdist AbsDiff (nth (n + t) s1 []) (nth (n - 1) s2 [])))
      by (intros k ub Hk; apply eu_loop3; unfold n in *; lia).
    do 3 f_equal; lia.
  - destruct (Z.ltb_spec zr zc) as [Hlt|Hge].
    + replace (c <? r)%nat with false by (symmetry; apply Nat.ltb_ge; lia).
      replace zc with (Z.of_nat (n + (c - n))) at 2 by (unfold n; lia).
      rewrite (fold_sumf _ (fun t => pdist AbsDiff (nth (n - 1) s1 []) (nth (n + t) s2 [])))
        by (intros k ub Hk; apply eu_loop5; unfold n in *; lia).
      do 3 f_equal; lia.
    + replace (c <? r)%nat with false by (symmetry; apply Nat.ltb_ge; lia).
      replace (c - n)%nat with 0%nat by (unfold n; lia). cbn [sumf]. do 3 f_equal; lia.
Qed.
End NDim.

(* ------------------------------------------------------------------ use_pruning in the C kernel, end to end *)
Definition cret_val (x : cret) : cost := match x with RSqrt v => v | RPlain v => v end.

(* dtw_distance with use_pruning: the bound is what euclidean_distance_squared RETURNS (regenerated, not an oracle);
   where the Euclidean distance is a valid upper bound (no max_step; no penalty or equal lengths) the result is the
   unpruned specification value *)
Theorem c_dtw_distance_pruned_exact (window p mld : Z) (p1b p1e p2b p2e : nat) (junk : Z -> cost) (f1 f2 : list Z) ce cub idist md :
  0 <= window -> 0 <= p -> (1 <= length f1)%nat -> (1 <= length f2)%nat ->
  (p1b < length f1 \/ p2e < length f2)%nat -> (idist =? 1) = false ->
  (p = 0 \/ length f1 = length f2) ->
  let u := c_to_u (cs_of window p 0 mld (psi4 p1b p1e p2b p2e) SqEuclid) in
  c_dtw_distance ce (cret_val (fst (c_euclidean_distance_squared f1 (Z.of_nat (length f1)) f2 (Z.of_nat (length f2))))) cub junk
                 f1 (Z.of_nat (length f1)) f2 (Z.of_nat (length f2)) idist md mld (Fin 0) false (Fin p)
                 (Z.of_nat p1b) (Z.of_nat p1e) (Z.of_nat p2b) (Z.of_nat p2e) true window =
  ((if too_long u (scal f1) (scal f2) then RPlain Inf else RSqrt (dtw_value u (scal f1) (scal f2))), true).
Proof.
  intros Hwin Hp H1 H2 Hpsi Hid Hpen u.
  rewrite (c_dtw_distance_spec window p 0 mld p1b p1e p2b p2e junk Hwin Hp f1 f2) by assumption.
  rewrite c_euclidean_distance_squared_spec by assumption. cbn [fst cret_val]. unfold c_bound_sq.
  fold u. destruct (too_long u (scal f1) (scal f2)); [reflexivity|].
  assert (HB : Prune.bounded (Fin (ed_model SqEuclid (scal f1) (scal f2))) (dtw_value u (scal f1) (scal f2)) = dtw_value u (scal f1) (scal f2)).
  { unfold Prune.bounded.
    assert (Hle : cle (dtw_value u (scal f1) (scal f2)) (Fin (ed_model (u_inner u) (scal f1) (scal f2)))).
    { apply dtw_le_ed.
      - apply (c_window_pos (scal f1) (scal f2) window p 0 mld (psi4 p1b p1e p2b p2e) SqEuclid);
          rewrite ?scal_length; assumption.
      - reflexivity.
      - rewrite scal_length. exact H1.
      - rewrite scal_length. exact H2.
      - rewrite !scal_length. destruct Hpen as [->|E]; [left; reflexivity|right; exact E]. }
    unfold cle in Hle. change (u_inner u) with SqEuclid in Hle. rewrite Hle. reflexivity. }
  rewrite HB. reflexivity.
Qed.
