(* The serial C distance-matrix routines enumerate exactly the pairs of the
   specification (Matrix.pairs), in the same row-major order, and
   dtw_distances_length returns their number: over the loop bounds, the column-start
   rule, the 0 -> n corrections and the per-row length contribution regenerated from
   dd_dtw.c (Gen_cmatrix).  Results are stored at consecutive positions (checked by
   the translator), so output[k] belongs to the k-th pair of the specification. *)
From Coq Require Import ZArith Bool List Lia.
From DV Require Import Prelude Matrix.
From DVGen Require Import Gen_matrix Gen_cmatrix.
Import ListNotations.
Open Scope Z_scope.

(* how dtw_cc.pyx hands a block to C: None -> (0,0,0,0,triu); (rows, cols[, False]) -> the numbers, triu unless False *)
Definition c_args (blk : block) : Z * Z * Z * Z * Z :=
  if b_some blk then (fst (b_rows blk), snd (b_rows blk), fst (b_cols blk), snd (b_cols blk), if b_notriu blk then 0 else 1)
  else (0, 0, 0, 0, 1).

Definition strict_block (n : Z) (blk : block) : Prop :=
  b_some blk = false \/
  (0 <= fst (b_rows blk) < snd (b_rows blk) /\ snd (b_rows blk) <= n /\
   0 <= fst (b_cols blk) < snd (b_cols blk) /\ snd (b_cols blk) <= n).

Section OneRoutine.
Variables (c_re c_ce : Z -> Z -> Z) (row_start row_end : Z -> Z) (col_start : Z -> Z -> Z -> Z) (col_end : Z -> Z).

Definition c_pairs (n : Z) (blk : block) : list (Z * Z) :=
  let '(rb, re, cb, ce, triu) := c_args blk in
  let re' := c_re re n in
  let ce' := c_ce ce n in
  flat_map (fun r => map (fun c => (r, c)) (zrange (col_start triu cb r) (col_end ce')))
           (zrange (row_start rb) (row_end re')).
End OneRoutine.

Lemma flat_map_ext_in {A B} (f g : A -> list B) l : (forall x, In x l -> f x = g x) -> flat_map f l = flat_map g l.
Proof. induction l as [|x l IH]; intros H; simpl; [reflexivity|]. rewrite H by (left; reflexivity). rewrite IH; [reflexivity|]. intros; apply H; right; assumption. Qed.

Ltac pairs_tac :=
  intros n blk Hn Hv; unfold c_pairs, pairs, c_args, block_rows, row_cols;
  destruct Hv as [Hnone|(Hr & Hrn & Hc & Hcn)];
  [ rewrite Hnone; cbn [negb]; cbv beta iota zeta
  | destruct (b_some blk); cbn [negb]; cbv beta iota zeta ].

Lemma pairs_generic (c_re c_ce : Z -> Z -> Z) (row_start row_end : Z -> Z) (col_start : Z -> Z -> Z -> Z) (col_end : Z -> Z) :
  (forall e n, c_re e n = if e =? 0 then n else e) -> (forall e n, c_ce e n = if e =? 0 then n else e) ->
  (forall x, row_start x = x) -> (forall x, row_end x = x) -> (forall x, col_end x = x) ->
  (forall t cb r, col_start t cb r = if (0 <? t) && (r + 1 >? cb) then r + 1 else cb) ->
  forall n blk, 0 <= n -> strict_block n blk ->
  c_pairs c_re c_ce row_start row_end col_start col_end n blk = pairs n blk.
Proof.
  intros H1 H2 H3 H4 H5 H6 n blk Hn Hv. unfold c_pairs, pairs, c_args, block_rows, row_cols.
  destruct Hv as [Hnone|(Hr & Hrn & Hc & Hcn)].
  - rewrite Hnone. cbn [negb]. cbv beta iota zeta. rewrite H1, H2, H3, H4, H5. cbn [Z.eqb].
    apply flat_map_ext_in. intros r Hin. apply zrange_In in Hin. rewrite H6.
    replace ((0 <? 1) && (r + 1 >? 0)) with true; [reflexivity|].
    symmetry. apply andb_true_iff. split; [reflexivity|]. apply Z.gtb_lt. lia.
  - destruct (b_some blk) eqn:Es; cbn [negb]; cbv beta iota zeta.
    + rewrite H1, H2, H3, H4, H5.
      destruct (Z.eqb_spec (snd (b_rows blk)) 0); [lia|]. destruct (Z.eqb_spec (snd (b_cols blk)) 0); [lia|].
      apply flat_map_ext_in. intros r Hin. rewrite H6.
      rewrite Z.min_r by lia.
      destruct (b_notriu blk); cbn [Z.ltb andb].
      * reflexivity.
      * destruct (Z.gtb_spec (r + 1) (fst (b_cols blk))); [rewrite Z.max_l by lia|rewrite Z.max_r by lia]; reflexivity.
    + rewrite H1, H2, H3, H4, H5. cbn [Z.eqb].
      apply flat_map_ext_in. intros r Hin. apply zrange_In in Hin. rewrite H6.
      replace ((0 <? 1) && (r + 1 >? 0)) with true; [reflexivity|].
      symmetry. apply andb_true_iff. split; [reflexivity|]. apply Z.gtb_lt. lia.
Qed.

Theorem c_pairs_dtw_distances_ptrs : forall n blk, 0 <= n -> strict_block n blk ->
  c_pairs c_dtw_distances_ptrs_re c_dtw_distances_ptrs_ce c_dtw_distances_ptrs_row_start c_dtw_distances_ptrs_row_end
          c_dtw_distances_ptrs_col_start c_dtw_distances_ptrs_col_end n blk = pairs n blk.
Proof. apply pairs_generic; intros; reflexivity. Qed.

Theorem c_pairs_dtw_distances_matrix : forall n blk, 0 <= n -> strict_block n blk ->
  c_pairs c_dtw_distances_matrix_re c_dtw_distances_matrix_ce c_dtw_distances_matrix_row_start c_dtw_distances_matrix_row_end
          c_dtw_distances_matrix_col_start c_dtw_distances_matrix_col_end n blk = pairs n blk.
Proof. apply pairs_generic; intros; reflexivity. Qed.

Theorem c_pairs_dtw_distances_ndim_matrix : forall n blk, 0 <= n -> strict_block n blk ->
  c_pairs c_dtw_distances_ndim_matrix_re c_dtw_distances_ndim_matrix_ce c_dtw_distances_ndim_matrix_row_start
          c_dtw_distances_ndim_matrix_row_end c_dtw_distances_ndim_matrix_col_start c_dtw_distances_ndim_matrix_col_end n blk
  = pairs n blk.
Proof. apply pairs_generic; intros; reflexivity. Qed.

Theorem c_pairs_dtw_distances_ndim_ptrs : forall n blk, 0 <= n -> strict_block n blk ->
  c_pairs c_dtw_distances_ndim_ptrs_re c_dtw_distances_ndim_ptrs_ce c_dtw_distances_ndim_ptrs_row_start
          c_dtw_distances_ndim_ptrs_row_end c_dtw_distances_ndim_ptrs_col_start c_dtw_distances_ndim_ptrs_col_end n blk
  = pairs n blk.
Proof. apply pairs_generic; intros; reflexivity. Qed.

(* ---------------------------------------------------------------- dtw_distances_length, block given *)
Fixpoint zsum (f : Z -> Z) (l : list Z) : Z := match l with [] => 0 | x :: t => f x + zsum f t end.

Definition c_length_block (blk : block) : Z :=
  let rb := fst (b_rows blk) in let re := snd (b_rows blk) in
  let cb := fst (b_cols blk) in let ce := snd (b_cols blk) in
  if b_notriu blk then c_dtw_distances_length_rect rb re cb ce
  else zsum (c_dtw_distances_length_delta cb ce)
            (zrange (c_dtw_distances_length_row_start rb) (c_dtw_distances_length_row_end re)).

Lemma length_flat_map_zsum (f : Z -> list (Z * Z)) (g : Z -> Z) l :
  (forall r, In r l -> Z.of_nat (length (f r)) = g r) -> Z.of_nat (length (flat_map f l)) = zsum g l.
Proof.
  induction l as [|x l IH]; intros H; simpl; [reflexivity|].
  rewrite app_length, Nat2Z.inj_add, H by (left; reflexivity). rewrite IH; [reflexivity|]. intros; apply H; right; assumption.
Qed.

Theorem c_length_is_number_of_pairs : forall n blk, 0 <= n -> b_some blk = true ->
  0 <= fst (b_rows blk) < snd (b_rows blk) -> snd (b_rows blk) <= n ->
  0 <= fst (b_cols blk) < snd (b_cols blk) -> snd (b_cols blk) <= n ->
  c_length_block blk = Z.of_nat (length (pairs n blk)).
Proof.
  intros n blk Hn Hs Hr Hrn Hc Hcn. unfold c_length_block, pairs, block_rows, row_cols. rewrite Hs. cbn [negb]. cbv zeta.
  destruct (b_notriu blk).
  - unfold c_dtw_distances_length_rect. symmetry.
    rewrite (length_flat_map_zsum _ (fun _ => snd (b_cols blk) - fst (b_cols blk))).
    + generalize (fst (b_rows blk)) (snd (b_rows blk)) Hr. intros a b Hab.
      assert (G : forall k a, zsum (fun _ : Z => snd (b_cols blk) - fst (b_cols blk)) (zrange_aux k a) = Z.of_nat k * (snd (b_cols blk) - fst (b_cols blk))).
      { induction k as [|k IH]; intros a0; [reflexivity|]. cbn [zrange_aux zsum]. rewrite IH. lia. }
      unfold zrange. rewrite G. rewrite Z2Nat.id by lia. reflexivity.
    + intros r _. rewrite map_length, zrange_length. rewrite Z.min_r by lia. lia.
  - unfold c_dtw_distances_length_row_start, c_dtw_distances_length_row_end. symmetry.
    apply length_flat_map_zsum. intros r Hin. apply zrange_In in Hin.
    rewrite map_length, zrange_length. rewrite Z.min_r by lia. unfold c_dtw_distances_length_delta.
    destruct (Z.ltb_spec r (fst (b_cols blk))); [lia|]. destruct (Z.leb_spec (snd (b_cols blk)) r); lia.
Qed.
