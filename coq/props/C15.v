(* C15 -- hierarchical clustering (Hierarchical.fit), for every policy of
   choosing among minimal entries (row-major / order hook) and of orienting the
   merge (merge hook): merge distances are non-decreasing and <= max_dist, the
   loop stops only when no remaining pair is within max_dist (or n-1 merges were
   made), an absorbed series never takes part in a later merge, at most n-1
   merges.  That the returned dictionary is a partition keyed by prototypes is
   checked on the implementation by the harness (partial). *)
From Coq Require Import ZArith List.
From DV Require Import Cluster.

Section C15.
Variable choose : list entry -> option entry.
Hypothesis choose_in : forall es e, choose es = Some e -> In e es.
Hypothesis choose_min : forall es e e', choose es = Some e -> In e' es -> (ed e <= ed e')%Z.
Hypothesis choose_none : forall es, choose es = None -> es = nil.
Variable swap : entry -> bool.
Variable maxd : Z.

Theorem C15_merges_nondecreasing : forall fuel es, nondecreasing (map m_dist (fst (run choose swap maxd fuel es))).
Proof. apply merges_nondecreasing; assumption. Qed.

Theorem C15_merges_bounded : forall fuel es m, In m (fst (run choose swap maxd fuel es)) -> (m_dist m <= maxd)%Z.
Proof. apply merges_bounded. Qed.

Theorem C15_stops_only_when_none_left : forall fuel es,
  (length (fst (run choose swap maxd fuel es)) < fuel)%nat ->
  forall e, In e (snd (run choose swap maxd fuel es)) -> (maxd < ed e)%Z.
Proof. apply stops_when_none_left; assumption. Qed.

Theorem C15_absorbed_never_reused : forall fuel es m ms rest,
  run choose swap maxd (S fuel) es = (m :: ms, rest) ->
  forall m', In m' ms -> m_into m' <> m_from m /\ m_from m' <> m_from m.
Proof. apply absorbed_never_reused; assumption. Qed.

Theorem C15_at_most_n_minus_1_merges : forall fuel es, (length (fst (run choose swap maxd fuel es)) <= fuel)%nat.
Proof. apply at_most_fuel_merges. Qed.
End C15.

(* the executable policy used by the correspondence check satisfies the hypotheses *)
Theorem C15_row_major_policy_ok :
  (forall es e, first_min es = Some e -> In e es) /\
  (forall es e e', first_min es = Some e -> In e' es -> (ed e <= ed e')%Z) /\
  (forall es, first_min es = None -> es = nil).
Proof. repeat split; [apply first_min_in|apply first_min_min|apply first_min_none]. Qed.

(* The cluster dictionary as Hierarchical.fit builds it (ClusterPart.v: lazily created entries, update/del, the
   prototypes added at the end): for every well-formed merge sequence -- and Cluster.run only produces such, for
   every choice / swap policy -- the result partitions 0..n-1, keys are never-absorbed series and members of their
   own cluster. *)
From DV Require Import ClusterPart.

Theorem C15_clusters_partition : forall n ms, wf_merges n nil ms ->
  let cs := clusters_model n ms in
  NoDup (map fst cs) /\
  (forall k s, In (k, s) cs -> (k < n)%nat /\ ~ In k (snd (dsteps ms)) /\ In k s /\ NoDup s /\
                               forall j, In j s <-> ((j < n)%nat /\ owners ms j = k)) /\
  (forall j, (j < n)%nat -> exists s, In (owners ms j, s) cs /\ In j s) /\
  (forall j k s k' s', In (k, s) cs -> In (k', s') cs -> In j s -> In j s' -> k = k').
Proof. exact clusters_partition. Qed.

Theorem C15_run_merges_well_formed : forall choose, (forall es e, choose es = Some e -> In e es) ->
  forall swap maxd n fuel es del, entries_ok n del es ->
  wf_merges n del (map (fun m => (m_into m, m_from m)) (fst (run choose swap maxd fuel es))).
Proof. exact run_wf. Qed.

Theorem C15_fit_partitions : forall n maxd es, (forall e, In e es -> (er e < ec e)%nat /\ (ec e < n)%nat) ->
  let cs := clusters_model n (map (fun m => (m_into m, m_from m)) (fit_model n maxd es)) in
  NoDup (map fst cs) /\ (forall k s, In (k, s) cs -> (k < n)%nat /\ In k s /\ NoDup s) /\
  (forall j, (j < n)%nat -> exists k s, In (k, s) cs /\ In j s) /\
  (forall j k s k' s', In (k, s) cs -> In (k', s') cs -> In j s -> In j s' -> k = k').
Proof. exact fit_clusters_partition. Qed.
