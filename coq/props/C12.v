(* C12 -- one DBA update: per-position mean of the associated points.  Stated
   over the reals about the association table the code builds
   (assoctab[i].append(seq[j]) for the pairs of each selected series' path). *)
From Coq Require Import Reals List.
From DV Require Import Dba.
Import ListNotations.
Open Scope R_scope.

Theorem C12_mean_in_range : forall lo hi l, l <> [] -> (forall x, In x l -> lo <= x <= hi) -> lo <= mean l <= hi.
Proof. exact mean_in_range. Qed.

Theorem C12_mean_minimises : forall a l, l <> [] -> sqdev (mean l) l <= sqdev a l.
Proof. exact mean_minimises. Qed.

(* the cost along the old optimal paths does not increase; since DTW is the minimum over
   admissible paths (C01) and admissibility does not depend on the values (no max_step), the
   sum of squared DTW distances to the selected series does not increase either *)
Theorem C12_update_never_worsens_path_cost : forall c A, length c = length A -> (forall Ai, In Ai A -> Ai <> []) ->
  assoc_cost (dba_step A) A <= assoc_cost c A.
Proof. exact dba_step_decreases_assoc_cost. Qed.

Theorem C12_table_cost_is_sum_over_aligned_pairs : forall c ps, (forall iv, In iv ps -> (fst iv < length c)%nat) ->
  assoc_cost c (build (length c) ps) = pairs_cost c ps.
Proof. exact assoc_cost_is_sum_over_aligned_pairs. Qed.

Theorem C12_zero_cost_fixed_point : forall c A, length c = length A -> (forall Ai, In Ai A -> Ai <> []) ->
  assoc_cost c A = 0 -> dba_step A = c.
Proof. exact zero_cost_is_fixed_point. Qed.
