(* C12 -- one DBA update: per-position mean of the associated points.  Stated
   over the reals about the association table the code builds
   (assoctab[i].append(seq[j]) for the pairs of each selected series' path). *)
From Coq Require Import Reals List.
From DV Require Import Dba DbaDtw.
Import ListNotations.
Open Scope R_scope.

Theorem C12_mean_in_range : forall lo hi l, l <> [] -> (forall x, In x l -> lo <= x <= hi) -> lo <= mean l <= hi.
Proof. exact mean_in_range. Qed.

Theorem C12_mean_minimises : forall a l, l <> [] -> sqdev (mean l) l <= sqdev a l.
Proof. exact mean_minimises. Qed.

(* the cost along the old optimal paths does not increase; since DTW is the minimum over
   admissible paths (C01) and admissibility does not depend on the values (no max_step), the
   sum of squared DTW distances to the selected series does not increase either *)
Theorem C12_update_never_worsens_path_cost : forall c A, length c = length A -> (forall Ai, In Ai A -> Ai <> []) ->
  assoc_cost (dba_step A) A <= assoc_cost c A.
Proof. exact dba_step_decreases_assoc_cost. Qed.

Theorem C12_table_cost_is_sum_over_aligned_pairs : forall c ps, (forall iv, In iv ps -> (fst iv < length c)%nat) ->
  assoc_cost c (build (length c) ps) = pairs_cost c ps.
Proof. exact assoc_cost_is_sum_over_aligned_pairs. Qed.

Theorem C12_zero_cost_fixed_point : forall c A, length c = length A -> (forall Ai, In Ai A -> Ai <> []) ->
  assoc_cost c A = 0 -> dba_step A = c.
Proof. exact zero_cost_is_fixed_point. Qed.

(* The full statement: with the new average built from the selected series' optimal paths
   (table = all aligned pairs, step = position-wise mean) the sum over the selected series of
   the squared DTW distances does not increase -- for every function dist that is attained by
   the path used for the old average and is a lower bound of the cost (squared differences
   plus pen per non-diagonal step) of that same index path for every average of the same length
   (index paths stay admissible: admissibility depends on lengths and window only). *)
Theorem C12_step_never_worsens_sum_of_dtw : forall pen (dist : list R -> list R -> R) c SP,
  (forall iv, In iv (all_pairs SP) -> (fst iv < length c)%nat) ->
  (forall a, (a < length c)%nat -> exists v, In (a, v) (all_pairs SP)) ->
  (forall sp, In sp SP -> dist c (fst sp) = rpath_cost pen c (fst sp) (snd sp)) ->
  (forall c' sp, In sp SP -> length c' = length c -> dist c' (fst sp) <= rpath_cost pen c' (fst sp) (snd sp)) ->
  dist_sum dist (new_average (length c) SP) SP <= dist_sum dist c SP.
Proof. exact dba_step_never_worsens_dtw. Qed.

(* the covering premise holds for one warping path from row 0 to the last row *)
Theorem C12_warping_path_covers_every_position : forall P t, P <> [] -> unit_steps P ->
  fst (hd (0, 0)%nat P) = 0%nat -> fst (last P (0, 0)%nat) = (t - 1)%nat ->
  forall a, (a < t)%nat -> exists b, In (a, b) P.
Proof. exact path_covers_rows. Qed.
