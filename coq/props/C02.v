(* C02 -- both engines are described by one model (DtwSpec.dtw_model); the
   Python->C settings hand-over preserves its value for every setting
   expressible in both engines; max_length_diff = 0 is not (refuted). *)
From Coq Require Import ZArith List.
From DV Require Import Cost Dtw DtwSpec Engines.

Theorem C02_off_encodings_commute : forall u s1 s2, expressible u ->
  c_dtw_model (py_to_c u) s1 s2 = dtw_model u s1 s2.
Proof. exact off_encodings_commute. Qed.

Theorem C02_engines_same_model : forall cs s1 s2,
  c_dtw_model cs s1 s2 = dtw_model (c_to_u cs) s1 s2.
Proof. reflexivity. Qed.

Theorem C02_mld_zero_refuted :
  exists u s1 s2, c_dtw_model (py_to_c u) s1 s2 <> dtw_model u s1 s2.
Proof. exact mld_zero_refuted. Qed.

(* The row loop of each of the four C kernels (expressions regenerated from dd_dtw.c) visits the band of the
   specification and uses the buffer length and per-row offset of dtw.distance (regenerated from dtw.py): the
   as-written model of dtw.distance, proved against the specification (C01, C03), has the index arithmetic of
   the C kernels too. *)
From DV Require Import BandTie CBand.
From DVGen Require Import Gen_dtw Gen_cmem.

Theorem C02_c_kernels_same_band_and_buffer :
  band_facts (cv_maxj c_dtw_distance_ldiff c_dtw_distance_dl c_dtw_distance_dl_window c_dtw_distance_maxj)
             (cv_minj c_dtw_distance_ldiff c_dtw_distance_ldiff_window c_dtw_distance_minj)
             (cv_skip c_dtw_distance_ldiff c_dtw_distance_dl c_dtw_distance_dl_window c_dtw_distance_maxj
                      c_dtw_distance_skip c_dtw_distance_length)
             (cv_length c_dtw_distance_ldiff c_dtw_distance_length) /\
  band_facts (cv_maxj c_dtw_distance_ndim_ldiff c_dtw_distance_ndim_dl c_dtw_distance_ndim_dl_window c_dtw_distance_ndim_maxj)
             (cv_minj c_dtw_distance_ndim_ldiff c_dtw_distance_ndim_ldiff_window c_dtw_distance_ndim_minj)
             (cv_skip c_dtw_distance_ndim_ldiff c_dtw_distance_ndim_dl c_dtw_distance_ndim_dl_window c_dtw_distance_ndim_maxj
                      c_dtw_distance_ndim_skip c_dtw_distance_ndim_length)
             (cv_length c_dtw_distance_ndim_ldiff c_dtw_distance_ndim_length) /\
  band_facts (cv_maxj c_dtw_distance_euclidean_ldiff c_dtw_distance_euclidean_dl c_dtw_distance_euclidean_dl_window c_dtw_distance_euclidean_maxj)
             (cv_minj c_dtw_distance_euclidean_ldiff c_dtw_distance_euclidean_ldiff_window c_dtw_distance_euclidean_minj)
             (cv_skip c_dtw_distance_euclidean_ldiff c_dtw_distance_euclidean_dl c_dtw_distance_euclidean_dl_window c_dtw_distance_euclidean_maxj
                      c_dtw_distance_euclidean_skip c_dtw_distance_euclidean_length)
             (cv_length c_dtw_distance_euclidean_ldiff c_dtw_distance_euclidean_length) /\
  band_facts (cv_maxj c_dtw_distance_ndim_euclidean_ldiff c_dtw_distance_ndim_euclidean_dl c_dtw_distance_ndim_euclidean_dl_window c_dtw_distance_ndim_euclidean_maxj)
             (cv_minj c_dtw_distance_ndim_euclidean_ldiff c_dtw_distance_ndim_euclidean_ldiff_window c_dtw_distance_ndim_euclidean_minj)
             (cv_skip c_dtw_distance_ndim_euclidean_ldiff c_dtw_distance_ndim_euclidean_dl c_dtw_distance_ndim_euclidean_dl_window c_dtw_distance_ndim_euclidean_maxj
                      c_dtw_distance_ndim_euclidean_skip c_dtw_distance_ndim_euclidean_length)
             (cv_length c_dtw_distance_ndim_euclidean_ldiff c_dtw_distance_ndim_euclidean_length).
Proof.
  split; [exact c_band_dtw_distance|]. split; [exact c_band_dtw_distance_ndim|].
  split; [exact c_band_dtw_distance_euclidean|exact c_band_dtw_distance_ndim_euclidean].
Qed.
