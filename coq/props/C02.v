(* C02 -- both engines are described by one model (DtwSpec.dtw_model); the
   Python->C settings hand-over preserves its value for every setting
   expressible in both engines; max_length_diff = 0 is not (refuted). *)
From Coq Require Import ZArith List.
From DV Require Import Cost Dtw DtwSpec Engines.

Theorem C02_off_encodings_commute : forall u s1 s2, expressible u ->
  c_dtw_model (py_to_c u) s1 s2 = dtw_model u s1 s2.
Proof. exact off_encodings_commute. Qed.

Theorem C02_engines_same_model : forall cs s1 s2,
  c_dtw_model cs s1 s2 = dtw_model (c_to_u cs) s1 s2.
Proof. reflexivity. Qed.

Theorem C02_mld_zero_refuted :
  exists u s1 s2, c_dtw_model (py_to_c u) s1 s2 <> dtw_model u s1 s2.
Proof. exact mld_zero_refuted. Qed.

(* The row loop of each of the four C kernels (expressions regenerated from dd_dtw.c) visits the band of the
   specification and uses the buffer length and per-row offset of dtw.distance (regenerated from dtw.py): the
   as-written model of dtw.distance, proved against the specification (C01, C03), has the index arithmetic of
   the C kernels too. *)
From DV Require Import BandTie CBand.
From DVGen Require Import Gen_dtw Gen_cmem.

Theorem C02_c_kernels_same_band_and_buffer :
  band_facts (cv_maxj c_dtw_distance_ldiff c_dtw_distance_dl c_dtw_distance_dl_window c_dtw_distance_maxj)
             (cv_minj c_dtw_distance_ldiff c_dtw_distance_ldiff_window c_dtw_distance_minj)
             (cv_skip c_dtw_distance_ldiff c_dtw_distance_dl c_dtw_distance_dl_window c_dtw_distance_maxj
                      c_dtw_distance_skip c_dtw_distance_length)
             (cv_length c_dtw_distance_ldiff c_dtw_distance_length) /\
  band_facts (cv_maxj c_dtw_distance_ndim_ldiff c_dtw_distance_ndim_dl c_dtw_distance_ndim_dl_window c_dtw_distance_ndim_maxj)
             (cv_minj c_dtw_distance_ndim_ldiff c_dtw_distance_ndim_ldiff_window c_dtw_distance_ndim_minj)
             (cv_skip c_dtw_distance_ndim_ldiff c_dtw_distance_ndim_dl c_dtw_distance_ndim_dl_window c_dtw_distance_ndim_maxj
                      c_dtw_distance_ndim_skip c_dtw_distance_ndim_length)
             (cv_length c_dtw_distance_ndim_ldiff c_dtw_distance_ndim_length) /\
  band_facts (cv_maxj c_dtw_distance_euclidean_ldiff c_dtw_distance_euclidean_dl c_dtw_distance_euclidean_dl_window c_dtw_distance_euclidean_maxj)
             (cv_minj c_dtw_distance_euclidean_ldiff c_dtw_distance_euclidean_ldiff_window c_dtw_distance_euclidean_minj)
             (cv_skip c_dtw_distance_euclidean_ldiff c_dtw_distance_euclidean_dl c_dtw_distance_euclidean_dl_window c_dtw_distance_euclidean_maxj
                      c_dtw_distance_euclidean_skip c_dtw_distance_euclidean_length)
             (cv_length c_dtw_distance_euclidean_ldiff c_dtw_distance_euclidean_length) /\
  band_facts (cv_maxj c_dtw_distance_ndim_euclidean_ldiff c_dtw_distance_ndim_euclidean_dl c_dtw_distance_ndim_euclidean_dl_window c_dtw_distance_ndim_euclidean_maxj)
             (cv_minj c_dtw_distance_ndim_euclidean_ldiff c_dtw_distance_ndim_euclidean_ldiff_window c_dtw_distance_ndim_euclidean_minj)
             (cv_skip c_dtw_distance_ndim_euclidean_ldiff c_dtw_distance_ndim_euclidean_dl c_dtw_distance_ndim_euclidean_dl_window c_dtw_distance_ndim_euclidean_maxj
                      c_dtw_distance_ndim_euclidean_skip c_dtw_distance_ndim_euclidean_length)
             (cv_length c_dtw_distance_ndim_euclidean_ldiff c_dtw_distance_ndim_euclidean_length).
Proof.
  split; [exact c_band_dtw_distance|]. split; [exact c_band_dtw_distance_ndim|].
  split; [exact c_band_dtw_distance_euclidean|exact c_band_dtw_distance_ndim_euclidean].
Qed.

(* THE C KERNELS AS WRITTEN.  Gen_cdist.v holds the four dtw_distance* functions of dd_dtw.c translated WHOLE by
   tools/cfun.py (decoding of the settings struct, two-row buffer with i0/i1, row loop, cell update, PrunedDTW
   bookkeeping, psi scans, final comparison with the bound; one definition per function and per loop body).  For every
   input they return the specification value (the minimum over admissible warping paths, DtwSpec.dtw_value) cut at the
   bound in use, in the kernel's internal representation (RSqrt v: the C code returns sqrt(v)); the second component
   says that every array access was in range.  Proof: CDistTie.v (regenerated text = canonical kernel), CDistProofs.v
   (canonical kernel = as-written model of dtw.distance, a simulation of the two-row buffer), PyDistPrune.v (= spec).
   Oracle parameters: ce / ced / cub are the values of the C functions the kernel calls (dtw_distance_euclidean,
   euclidean_distance_squared, ub_euclidean); ced only enters as the bound when use_pruning is set. *)
From Coq Require Import Bool.
Import ListNotations.
From DV Require Import Bounds Prune DtwProps CLang CDistSpec.
From DVGen Require Import Gen_cdist.

Theorem C02_c_dtw_distance_as_written :
  forall (window p m mld : Z) (p1b p1e p2b p2e : nat) (junk : Z -> cost), (0 <= window)%Z -> (0 <= p)%Z ->
  forall (f1 f2 : list Z) (ce ced cub : cost) (idist : Z) (md : cost) (prune : bool),
  (1 <= length f1)%nat -> (1 <= length f2)%nat -> (p1b < length f1 \/ p2e < length f2)%nat -> (idist =? 1)%Z = false ->
  c_dtw_distance ce ced cub junk f1 (Z.of_nat (length f1)) f2 (Z.of_nat (length f2)) idist md mld (Fin m) false (Fin p)
                 (Z.of_nat p1b) (Z.of_nat p1e) (Z.of_nat p2b) (Z.of_nat p2e) prune window =
  ((if too_long (c_to_u (cs_of window p m mld (psi4 p1b p1e p2b p2e) SqEuclid)) (scal f1) (scal f2) then RPlain Inf
    else RSqrt (bounded (c_bound_sq prune ced md)
                  (dtw_value (c_to_u (cs_of window p m mld (psi4 p1b p1e p2b p2e) SqEuclid)) (scal f1) (scal f2)))), true).
Proof. exact c_dtw_distance_spec. Qed.

Theorem C02_c_dtw_distance_euclidean_as_written :
  forall (window p m mld : Z) (p1b p1e p2b p2e : nat) (junk : Z -> cost), (0 <= window)%Z -> (0 <= p)%Z ->
  forall (f1 f2 : list Z) (cub md : cost) (prune : bool),
  (1 <= length f1)%nat -> (1 <= length f2)%nat -> (p1b < length f1 \/ p2e < length f2)%nat ->
  c_dtw_distance_euclidean cub junk f1 (Z.of_nat (length f1)) f2 (Z.of_nat (length f2)) md mld (Fin m) false (Fin p)
                 (Z.of_nat p1b) (Z.of_nat p1e) (Z.of_nat p2b) (Z.of_nat p2e) prune window =
  ((if too_long (c_to_u (cs_of window p m mld (psi4 p1b p1e p2b p2e) AbsDiff)) (scal f1) (scal f2) then RPlain Inf
    else RPlain (bounded (c_bound_eu prune cub md)
                  (dtw_value (c_to_u (cs_of window p m mld (psi4 p1b p1e p2b p2e) AbsDiff)) (scal f1) (scal f2)))), true).
Proof. exact c_dtw_distance_euclidean_spec. Qed.

(* n-dimensional kernels: the series are lists of d-dimensional points stored point after point (concat) *)
Theorem C02_c_dtw_distance_ndim_as_written :
  forall (window p m mld : Z) (p1b p1e p2b p2e : nat) (junk : Z -> cost), (0 <= window)%Z -> (0 <= p)%Z ->
  forall (s1 s2 : list point) (d : nat),
  (forall q, In q s1 -> length q = d) -> (forall q, In q s2 -> length q = d) ->
  (1 <= length s1)%nat -> (1 <= length s2)%nat -> (p1b < length s1 \/ p2e < length s2)%nat ->
  forall (ce ced cub : cost) (idist : Z) (md : cost) (prune : bool), (idist =? 1)%Z = false ->
  c_dtw_distance_ndim ce ced cub junk (concat s1) (Z.of_nat (length s1)) (concat s2) (Z.of_nat (length s2)) (Z.of_nat d)
                 idist md mld (Fin m) false (Fin p) (Z.of_nat p1b) (Z.of_nat p1e) (Z.of_nat p2b) (Z.of_nat p2e) prune window =
  ((if too_long (c_to_u (cs_of window p m mld (psi4 p1b p1e p2b p2e) SqEuclid)) s1 s2 then RPlain Inf
    else RSqrt (bounded (c_bound_sq prune ced md)
                  (dtw_value (c_to_u (cs_of window p m mld (psi4 p1b p1e p2b p2e) SqEuclid)) s1 s2))), true).
Proof. exact c_dtw_distance_ndim_spec. Qed.

Theorem C02_c_dtw_distance_ndim_euclidean_as_written :
  forall (window p m mld : Z) (p1b p1e p2b p2e : nat) (junk : Z -> cost), (0 <= window)%Z -> (0 <= p)%Z ->
  forall (s1 s2 : list point) (d : nat),
  (forall q, In q s1 -> length q = d) -> (forall q, In q s2 -> length q = d) ->
  (1 <= length s1)%nat -> (1 <= length s2)%nat -> (p1b < length s1 \/ p2e < length s2)%nat ->
  forall (cub md : cost) (prune : bool),
  c_dtw_distance_ndim_euclidean cub junk (concat s1) (Z.of_nat (length s1)) (concat s2) (Z.of_nat (length s2)) (Z.of_nat d)
                 md mld (Fin m) false (Fin p) (Z.of_nat p1b) (Z.of_nat p1e) (Z.of_nat p2b) (Z.of_nat p2e) prune window =
  ((if too_long (c_to_u (cs_of window p m mld (psi4 p1b p1e p2b p2e) AbsDiff)) s1 s2 then RPlain Inf
    else RPlain (bounded (c_bound_eu prune cub md)
                  (dtw_value (c_to_u (cs_of window p m mld (psi4 p1b p1e p2b p2e) AbsDiff)) s1 s2))), true).
Proof. exact c_dtw_distance_ndim_euclidean_spec. Qed.

(* the hypotheses are satisfiable and the regenerated kernel computes: [0;0;5;0;1] vs [0;5;0;0;3], window 2,
   psi_1e = 1: squared value 4, returned as sqrt; with max_dist = 1 (bound 1 < 4): inf *)
Example C02_c_kernel_nonvacuous :
  c_dtw_distance Inf Inf Inf (fun _ => Fin 7) [0; 0; 5; 0; 1]%Z 5 [0; 5; 0; 0; 3]%Z 5 0 (Fin 0) 0 (Fin 0) false (Fin 0) 0 1 0 0 false 2
    = (RSqrt (Fin 4), true) /\
  c_dtw_distance Inf Inf Inf (fun _ => Fin 7) [0; 0; 5; 0; 1]%Z 5 [0; 5; 0; 0; 3]%Z 5 0 (Fin 1) 0 (Fin 0) false (Fin 0) 0 1 0 0 false 2
    = (RSqrt Inf, true).
Proof. vm_compute. split; reflexivity. Qed.
