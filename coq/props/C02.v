(* C02 -- both engines are described by one model (DtwSpec.dtw_model); the
   Python->C settings hand-over preserves its value for every setting
   expressible in both engines; max_length_diff = 0 is not (refuted). *)
From Coq Require Import ZArith List.
From DV Require Import Cost Dtw DtwSpec Engines.

Theorem C02_off_encodings_commute : forall u s1 s2, expressible u ->
  c_dtw_model (py_to_c u) s1 s2 = dtw_model u s1 s2.
Proof. exact off_encodings_commute. Qed.

Theorem C02_engines_same_model : forall cs s1 s2,
  c_dtw_model cs s1 s2 = dtw_model (c_to_u cs) s1 s2.
Proof. reflexivity. Qed.

Theorem C02_mld_zero_refuted :
  exists u s1 s2, c_dtw_model (py_to_c u) s1 s2 <> dtw_model u s1 s2.
Proof. exact mld_zero_refuted. Qed.
