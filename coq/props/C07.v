(* C07 -- schedule independence of the OpenMP distance matrix: the cell writes
   of dtw_distances_*_parallel go to pairwise distinct slots 0,1,2,... (row-major),
   so every permutation of the writes -- i.e. every thread count, OpenMP schedule
   and interleaving -- yields the serial result; and every variable the parallel
   loops assign outside their body is in the private clause (table regenerated
   from dd_dtw_openmp.c on every run).
   Partial: races on state outside this model (the kernels' own buffers, libgomp)
   and Pool.map's order preservation are not modelled. *)
From Coq Require Import ZArith List String Bool Permutation.
From DV Require Import Prelude Parallel.
From DVGen Require Import Gen_omp.
Import ListNotations.

Theorem C07_slots_are_0_to_len : forall b, valid_cblock b ->
  map fst (tasks b) = zrange 0 (cells_before b (k_re b - k_rb b)).
Proof. exact slots_enumerate. Qed.

Theorem C07_schedule_independent : forall (A : Type) (value : Z -> Z -> A) b sched out,
  valid_cblock b -> Permutation (tasks b) sched -> run A value sched out = run A value (tasks b) out.
Proof. intros A value b sched out. apply schedule_independent. Qed.

Definition subset (xs ys : list string) : bool := forallb (fun x => existsb (String.eqb x) ys) xs.

Theorem C07_private_complete :
  forallb (fun l => subset (ol_assigned_outer l) (ol_private l)) omp_loops = true.
Proof. vm_compute. reflexivity. Qed.

Theorem C07_only_output_is_stored :
  forallb (fun l => subset (ol_indexed_stores l) ["output"%string]) omp_loops = true.
Proof. vm_compute. reflexivity. Qed.

Theorem C07_six_loops : List.length omp_loops = 6%nat.
Proof. vm_compute. reflexivity. Qed.

(* The index plan those theorems are about is the one dd_dtw_openmp.c computes: dtw_distances_prepare (first
   column, running offset) and the row / column / output-slot expressions of all six parallel routines,
   regenerated into Gen_ompidx, coincide with Parallel.cb_of / rls_from / slot / tasks. *)
From DV Require Import ParallelTie.
From DVGen Require Import Gen_ompidx.

Theorem C07_index_plan_is_the_code :
  (forall b r, k_triu b = true -> cb_of b r = c_prepare_cb (k_cb b) r) /\
  routine_matches c_omp0_rows c_omp0_row c_omp0_col_rect c_omp0_col_end c_omp0_slot_triu_off c_omp0_slot_rect /\
  routine_matches c_omp1_rows c_omp1_row c_omp1_col_rect c_omp1_col_end c_omp1_slot_triu_off c_omp1_slot_rect /\
  routine_matches c_omp2_rows c_omp2_row c_omp2_col_rect c_omp2_col_end c_omp2_slot_triu_off c_omp2_slot_rect /\
  routine_matches c_omp3_rows c_omp3_row c_omp3_col_rect c_omp3_col_end c_omp3_slot_triu_off c_omp3_slot_rect /\
  routine_matches c_omp4_rows c_omp4_row c_omp4_col_rect c_omp4_col_end c_omp4_slot_triu_off c_omp4_slot_rect /\
  routine_matches c_omp5_rows c_omp5_row c_omp5_col_rect c_omp5_col_end c_omp5_slot_triu_off c_omp5_slot_rect.
Proof. split; [exact tie_prepare_cb|exact omp_routines_match]. Qed.

(* the kernels called from the parallel loops (and serially for every pair) never write the
   settings struct they share: regenerated table of writers, see CReent.v *)
From DV Require Import CReent.
From DVGen Require Import Gen_creent.
Theorem C07_kernels_leave_shared_settings_untouched :
  (forall f, In f settings_writers -> f = "dtw_settings_set_psi"%string) /\
  settings_writer_callers = [] /\
  (forall l, In l omp_loops -> ~ In (ol_function l) settings_writers).
Proof.
  split; [exact only_the_setter_writes_settings|]. split; [exact nothing_calls_the_setter|].
  exact parallel_routines_do_not_write_settings.
Qed.
