(* C07 -- schedule independence of the OpenMP distance matrix: the cell writes
   of dtw_distances_*_parallel go to pairwise distinct slots 0,1,2,... (row-major),
   so every permutation of the writes -- i.e. every thread count, OpenMP schedule
   and interleaving -- yields the serial result; and every variable the parallel
   loops assign outside their body is in the private clause (table regenerated
   from dd_dtw_openmp.c on every run).
   Partial: races on state outside this model (the kernels' own buffers, libgomp)
   and Pool.map's order preservation are not modelled. *)
From Coq Require Import ZArith List String Bool Permutation.
From DV Require Import Prelude Parallel.
From DVGen Require Import Gen_omp.
Import ListNotations.

Theorem C07_slots_are_0_to_len : forall b, valid_cblock b ->
  map fst (tasks b) = zrange 0 (cells_before b (k_re b - k_rb b)).
Proof. exact slots_enumerate. Qed.

Theorem C07_schedule_independent : forall (A : Type) (value : Z -> Z -> A) b sched out,
  valid_cblock b -> Permutation (tasks b) sched -> run A value sched out = run A value (tasks b) out.
Proof. intros A value b sched out. apply schedule_independent. Qed.

Definition subset (xs ys : list string) : bool := forallb (fun x => existsb (String.eqb x) ys) xs.

Theorem C07_private_complete :
  forallb (fun l => subset (ol_assigned_outer l) (ol_private l)) omp_loops = true.
Proof. vm_compute. reflexivity. Qed.

Theorem C07_only_output_is_stored :
  forallb (fun l => subset (ol_indexed_stores l) ["output"%string]) omp_loops = true.
Proof. vm_compute. reflexivity. Qed.

Theorem C07_six_loops : List.length omp_loops = 6%nat.
Proof. vm_compute. reflexivity. Qed.
