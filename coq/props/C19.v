(* C19 -- each distance-to-similarity transform is non-increasing in the
   distance, maximal at distance zero and inside [0,1] under its default scale;
   each squashing function is non-decreasing into [0,1].  Over the reals, for
   the formulas regenerated from similarity.py. *)
From Coq Require Import Reals Lra.
From DV Require Import Sim.
From DVGen Require Import Gen_sim.
Open Scope R_scope.

Theorem C19_exponential : forall r, 0 < r ->
  (forall D1 D2, D1 <= D2 -> sim_exponential D2 r <= sim_exponential D1 r) /\
  sim_exponential 0 r = 1 /\ (forall D, 0 <= D -> 0 < sim_exponential D r <= 1).
Proof. intros r Hr. repeat split; intros; try apply sim_exponential_antitone; try apply sim_exponential_zero; try apply sim_exponential_range; auto. Qed.

Theorem C19_gaussian : forall r, r <> 0 ->
  (forall D1 D2, 0 <= D1 -> D1 <= D2 -> sim_gaussian D2 r <= sim_gaussian D1 r) /\
  sim_gaussian 0 r = 1 /\ (forall D, 0 < sim_gaussian D r <= 1).
Proof. intros r Hr. repeat split; intros; try apply sim_gaussian_antitone; try apply sim_gaussian_zero; try apply sim_gaussian_range; auto. Qed.

Theorem C19_reciprocal : forall r a, 1 <= r -> 0 <= a ->
  (forall D1 D2, 0 <= D1 -> D1 <= D2 -> sim_reciprocal D2 r a <= sim_reciprocal D1 r a) /\
  sim_reciprocal 0 r a = 1 / r /\ (forall D, 0 <= D -> 0 < sim_reciprocal D r a <= 1).
Proof.
  intros r a Hr Ha. repeat split; intros; try (apply sim_reciprocal_antitone; auto; lra);
    try apply sim_reciprocal_zero; try apply sim_reciprocal_range; auto.
Qed.

Theorem C19_reverse : forall r, 0 < r ->
  (forall D1 D2, D1 <= D2 -> sim_reverse D2 r <= sim_reverse D1 r) /\
  sim_reverse 0 r = 1 /\ (forall D, 0 <= D <= r -> 0 <= sim_reverse D r <= 1).
Proof.
  intros r Hr. repeat split; intros; try apply sim_reverse_antitone; try (apply sim_reverse_zero; lra);
    try apply sim_reverse_range; auto.
Qed.

(* the documented formulas (regenerated from the docstrings) are the computed ones (regenerated from the code) *)
Theorem C19_documented_formulas_are_computed :
  (forall D r, doc_exponential D r = sim_exponential D r) /\
  (forall D r, doc_gaussian D r = sim_gaussian D r) /\
  (forall D r a, doc_reciprocal D r a = sim_reciprocal D r a) /\
  (forall D r, doc_reverse D r = sim_reverse D r) /\
  (forall X r x0, doc_squash_gaussian X r x0 = squash_gaussian X r x0) /\
  (forall X r x0, doc_squash_exponential X r x0 = squash_exponential X r x0).
Proof. exact documented_formulas_are_computed. Qed.

Theorem C19_squash_logistic : forall r x0, 0 < r ->
  (forall X1 X2, X1 <= X2 -> squash_logistic X1 r x0 <= squash_logistic X2 r x0) /\
  (forall X, 0 < squash_logistic X r x0 < 1).
Proof. intros. split; intros; [apply squash_logistic_monotone; auto|apply squash_logistic_range]. Qed.

Theorem C19_squash_exponential : forall r, 0 < r ->
  (forall X1 X2, X1 <= X2 -> squash_exponential X1 r 0 <= squash_exponential X2 r 0) /\
  (forall X, 0 <= X -> 0 <= squash_exponential X r 0 < 1).
Proof. intros. split; intros; [apply squash_exponential_monotone; auto|apply squash_exponential_range; auto]. Qed.

Theorem C19_squash_gaussian : forall r, r <> 0 ->
  (forall X1 X2, 0 <= X1 -> X1 <= X2 -> squash_gaussian X1 r 0 <= squash_gaussian X2 r 0) /\
  (forall X, 0 <= squash_gaussian X r 0 < 1).
Proof. intros. split; intros; [apply squash_gaussian_monotone; auto|apply squash_gaussian_range; auto]. Qed.
