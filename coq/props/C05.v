(* C05 -- the path traced back from a cell of the accumulated-cost matrix is a
   well-formed warping path (contiguous unit steps down to the psi-relaxed
   border), runs only through finite, i.e. in-band and max_step-admissible,
   cells, and its cost, penalties included, is exactly the value of that cell. *)
From Coq Require Import ZArith List Lia.
From DV Require Import Cost Grid Dtw DtwSpec Traceback.

Theorem C05_traced_path_cost : forall u s1 s2 i j,
  wpath_cost u s1 s2 i j (tb (Mfun u s1 s2) (adj_penalty u) (i + j) i j) = Some (Mfun u s1 s2 i j).
Proof. intros. apply tb_cost. lia. Qed.

Theorem C05_traced_path_contiguous : forall u s1 s2 i j,
  chain (pcells i j (tb (Mfun u s1 s2) (adj_penalty u) (i + j) i j)).
Proof.
  intros. eapply pcells_chain. apply C05_traced_path_cost.
Qed.

Theorem C05_traced_path_on_finite_cells : forall u s1 s2 i j,
  Mfun u s1 s2 i j <> Inf ->
  forall ab, In ab (pcells i j (tb (Mfun u s1 s2) (adj_penalty u) (i + j) i j)) ->
  Mfun u s1 s2 (fst ab) (snd ab) <> Inf.
Proof. intros u s1 s2 i j H. apply tb_cells_finite; [lia|exact H]. Qed.

(* the executable traceback over the matrix lists is the one the theorems speak about *)
Theorem C05_executable_is_model : forall u s1 s2 i j, (i <= sr s1)%nat -> (j <= sc s2)%nat ->
  tb (mget (wps_matrix u s1 s2)) (adj_penalty u) (i + j) i j = tb (Mfun u s1 s2) (adj_penalty u) (i + j) i j.
Proof.
  intros u s1 s2 i j Hi Hj. apply tb_ext with (r := sr s1) (c := sc s2); auto.
  intros a b Ha Hb. apply wps_matrix_Mfun; assumption.
Qed.
