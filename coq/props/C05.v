(* C05 -- the path traced back from a cell of the accumulated-cost matrix is a
   well-formed warping path (contiguous unit steps down to the psi-relaxed
   border), runs only through finite, i.e. in-band and max_step-admissible,
   cells, and its cost, penalties included, is exactly the value of that cell. *)
From Coq Require Import ZArith List Lia.
From DV Require Import Cost Grid Dtw DtwSpec Traceback RelaxedEnd RelaxedEndSpec.

Theorem C05_traced_path_cost : forall u s1 s2 i j,
  wpath_cost u s1 s2 i j (tb (Mfun u s1 s2) (adj_penalty u) (i + j) i j) = Some (Mfun u s1 s2 i j).
Proof. intros. apply tb_cost. lia. Qed.

Theorem C05_traced_path_contiguous : forall u s1 s2 i j,
  chain (pcells i j (tb (Mfun u s1 s2) (adj_penalty u) (i + j) i j)).
Proof.
  intros. eapply pcells_chain. apply C05_traced_path_cost.
Qed.

Theorem C05_traced_path_on_finite_cells : forall u s1 s2 i j,
  Mfun u s1 s2 i j <> Inf ->
  forall ab, In ab (pcells i j (tb (Mfun u s1 s2) (adj_penalty u) (i + j) i j)) ->
  Mfun u s1 s2 (fst ab) (snd ab) <> Inf.
Proof. intros u s1 s2 i j H. apply tb_cells_finite; [lia|exact H]. Qed.

(* the executable traceback over the matrix lists is the one the theorems speak about *)
Theorem C05_executable_is_model : forall u s1 s2 i j, (i <= sr s1)%nat -> (j <= sc s2)%nat ->
  tb (mget (wps_matrix u s1 s2)) (adj_penalty u) (i + j) i j = tb (Mfun u s1 s2) (adj_penalty u) (i + j) i j.
Proof.
  intros u s1 s2 i j Hi Hj. apply tb_ext with (r := sr s1) (c := sc s2); auto.
  intros a b Ha Hb. apply wps_matrix_Mfun; assumption.
Qed.

(* dtw.warping_path as written (end relaxation marks of dtw.warping_paths, then _relaxed_end,
   then best_path): the start cell of the trace is an admissible relaxed end cell and the traced
   path costs exactly the distance that warping_paths reports -- for every psi, also when a
   series has length 1 and the neighbour of the marked corner is a border cell. *)
Theorem C05_warping_path_cost_is_distance : forall u s1 s2, (1 <= sr s1)%nat -> (1 <= sc s2)%nat ->
  dtw_value u s1 s2 <> Inf ->
  let ij := relaxed_end (Mfun u s1 s2) (sr s1) (sc s2) (psi_1e u) (psi_2e u) in
  In ij (end_cands u s1 s2) /\
  wpath_cost u s1 s2 (fst ij) (snd ij)
    (tb (Mfun u s1 s2) (adj_penalty u) (fst ij + snd ij) (fst ij) (snd ij)) = Some (dtw_value u s1 s2).
Proof. exact warping_path_cost_is_distance. Qed.

(* the value chosen by the end relaxation of warping_paths (first minimum of the last column,
   first minimum of the last row, the column only if strictly smaller) is the specification's distance *)
Theorem C05_relaxed_value_is_distance : forall u s1 s2, (1 <= sr s1)%nat -> (1 <= sc s2)%nat ->
  value (Mfun u s1 s2) (sr s1) (sc s2) (psi_1e u) (psi_2e u) = dtw_value u s1 s2.
Proof. exact relaxed_value_is_dtw_value. Qed.
