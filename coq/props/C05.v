(* C05 -- the path traced back from a cell of the accumulated-cost matrix is a
   well-formed warping path (contiguous unit steps down to the psi-relaxed
   border), runs only through finite, i.e. in-band and max_step-admissible,
   cells, and its cost, penalties included, is exactly the value of that cell. *)
From Coq Require Import ZArith List Lia String.
From DV Require Import Cost Grid Dtw DtwSpec Traceback RelaxedEnd RelaxedEndSpec TracebackC CTrace CFillSim CTraceSim CTraceSpec CFillTrace CWps.
From DVGen Require Import Gen_ctrace.

Theorem C05_traced_path_cost : forall u s1 s2 i j,
  wpath_cost u s1 s2 i j (tb (Mfun u s1 s2) (adj_penalty u) (i + j) i j) = Some (Mfun u s1 s2 i j).
Proof. intros. apply tb_cost. lia. Qed.

Theorem C05_traced_path_contiguous : forall u s1 s2 i j,
  chain (pcells i j (tb (Mfun u s1 s2) (adj_penalty u) (i + j) i j)).
Proof.
  intros. eapply pcells_chain. apply C05_traced_path_cost.
Qed.

Theorem C05_traced_path_on_finite_cells : forall u s1 s2 i j,
  Mfun u s1 s2 i j <> Inf ->
  forall ab, In ab (pcells i j (tb (Mfun u s1 s2) (adj_penalty u) (i + j) i j)) ->
  Mfun u s1 s2 (fst ab) (snd ab) <> Inf.
Proof. intros u s1 s2 i j H. apply tb_cells_finite; [lia|exact H]. Qed.

(* the executable traceback over the matrix lists is the one the theorems speak about *)
Theorem C05_executable_is_model : forall u s1 s2 i j, (i <= sr s1)%nat -> (j <= sc s2)%nat ->
  tb (mget (wps_matrix u s1 s2)) (adj_penalty u) (i + j) i j = tb (Mfun u s1 s2) (adj_penalty u) (i + j) i j.
Proof.
  intros u s1 s2 i j Hi Hj. apply tb_ext with (r := sr s1) (c := sc s2); auto.
  intros a b Ha Hb. apply wps_matrix_Mfun; assumption.
Qed.

(* dtw.warping_path as written (end relaxation marks of dtw.warping_paths, then _relaxed_end,
   then best_path): the start cell of the trace is an admissible relaxed end cell and the traced
   path costs exactly the distance that warping_paths reports -- for every psi, also when a
   series has length 1 and the neighbour of the marked corner is a border cell. *)
Theorem C05_warping_path_cost_is_distance : forall u s1 s2, (1 <= sr s1)%nat -> (1 <= sc s2)%nat ->
  dtw_value u s1 s2 <> Inf ->
  let ij := relaxed_end (Mfun u s1 s2) (sr s1) (sc s2) (psi_1e u) (psi_2e u) in
  In ij (end_cands u s1 s2) /\
  wpath_cost u s1 s2 (fst ij) (snd ij)
    (tb (Mfun u s1 s2) (adj_penalty u) (fst ij + snd ij) (fst ij) (snd ij)) = Some (dtw_value u s1 s2).
Proof. exact warping_path_cost_is_distance. Qed.

(* the value chosen by the end relaxation of warping_paths (first minimum of the last column,
   first minimum of the last row, the column only if strictly smaller) is the specification's distance *)
Theorem C05_relaxed_value_is_distance : forall u s1 s2, (1 <= sr s1)%nat -> (1 <= sc s2)%nat ->
  value (Mfun u s1 s2) (sr s1) (sc s2) (psi_1e u) (psi_2e u) = dtw_value u s1 s2.
Proof. exact relaxed_value_is_dtw_value. Qed.

(* ---- the C tracebacks.  (1) Any rule that picks a minimal predecessor traces a path whose cost is the value of the
   start cell; the rule of dtw_best_path / dtw_best_path_customstart (diag if diag <= left+pen and diag <= up+pen,
   else left if left <= up, else up -- condition texts checked by the translator) is such a rule. *)
Theorem C05_c_rule_traces_an_optimal_path : forall u s1 s2 fuel i j, (i + j <= fuel)%nat ->
  wpath_cost u s1 s2 i j (gtb (cpick (cell u s1 s2) (adj_penalty u) (psi_1b u) (psi_2b u)) fuel i j) = Some (Mfun u s1 s2 i j).
Proof. intros u s1 s2 fuel i j H. apply c_traceback_cost. exact H. Qed.

(* (2) The loops of all five C traceback routines address the compact array through its layout: with wpsi the slot of
   the current cell, the three reads are the slots of (rip-1,cip-1), (rip,cip-1), (rip-1,cip) in THEIR rows, inside those
   rows for band cells, and every move re-establishes the invariant (tables regenerated from dd_dtw.c). *)
Theorem C05_c_traceback_loops_follow_the_layout : forall l1 l2 window0, (1 <= l1)%Z -> (1 <= l2)%Z -> (0 <= window0)%Z ->
  forall t, In t trace_loops -> loop_ok l1 l2 window0 t.
Proof. exact trace_loops_follow_the_layout. Qed.

Theorem C05_c_traceback_start_slot : forall l1 l2 window0, (1 <= l1)%Z -> (1 <= l2)%Z -> (0 <= window0)%Z -> init_ok l1 l2 window0.
Proof. exact trace_start_is_the_corner_slot. Qed.

Theorem C05_c_plain_decisions : forall t, In t trace_loops ->
  (tl_function t = "dtw_best_path" \/ tl_function t = "dtw_best_path_customstart")%string -> tl_decision t = "le_pen"%string.
Proof. exact plain_decisions. Qed.

(* (3) The two parts glued: the C loop -- canonical offsets and moves (the regenerated loops are the canonical ones:
   C05_c_loops_are_canonical), active loop determined by rip -- run on a compact array W that holds the matrix M through
   the layout (correspondence: C04 judges every slot of the compact array), from the layout slot of a finite cell, takes
   exactly the steps of the abstract traceback with the C rule; hence the path it returns costs the value of its start
   cell. *)
Theorem C05_c_loops_are_canonical : forall t, In t trace_loops -> tgeometry t = tgeometry (tcanon (tl_region t)).
Proof. exact trace_loops_are_canonical. Qed.

Theorem C05_c_loop_path_cost : forall l1 l2 window0, (1 <= l1)%Z -> (1 <= l2)%Z -> (0 <= window0)%Z ->
  forall d pen p1b p2b (W : Z -> Z -> cost),
  (forall (i : nat) (s : Z), (Z.of_nat i <= l1)%Z -> (0 <= s < cw_width l1 l2 window0)%Z ->
     (0 <= s + cw_shift l1 l2 window0 (Z.of_nat i - 1) <= l2)%Z ->
     ((s + cw_shift l1 l2 window0 (Z.of_nat i - 1))%Z = 0%Z -> (Z.of_nat i <= cw_ri2 l1 l2 window0)%Z) ->
     W (Z.of_nat i) s = Mf d pen p1b p2b i (Z.to_nat (s + cw_shift l1 l2 window0 (Z.of_nat i - 1)))) ->
  (forall i j : nat, (Z.of_nat (S i) <= l1)%Z -> (Z.of_nat (S j) <= l2)%Z -> Mf d pen p1b p2b (S i) (S j) <> Inf ->
     (band_lo l1 l2 (cw_window l1 l2 window0) (Z.of_nat i) <= Z.of_nat j < band_hi l1 l2 (cw_window l1 l2 window0) (Z.of_nat i))%Z) ->
  forall fuel i j wpsi, (i + j <= fuel)%nat -> (Z.of_nat i <= l1)%Z -> (Z.of_nat j <= l2)%Z -> Mf d pen p1b p2b i j <> Inf ->
  wpsi = (Z.of_nat j - cw_shift l1 l2 window0 (Z.of_nat i - 1))%Z ->
  path_cost d pen p1b p2b i j (c_trace l1 l2 window0 pen W fuel i j wpsi) = Some (Mf d pen p1b p2b i j).
Proof.
  intros l1 l2 window0 H1 H2 Hw d pen p1b p2b W HW Hband fuel i j wpsi Hf Hi Hj Hfin Hinv.
  apply (c_trace_cost l1 l2 window0 H1 H2 Hw d pen p1b p2b W HW Hband fuel i j wpsi Hf Hi Hj Hfin Hinv).
Qed.

(* (4) ... and for the DTW matrix of two series the band hypothesis is discharged (the C window argument: None -> 0,
   w -> w, clipped by dtw_wps_parts, gives the Python engine's band): what remains assumed is only that the compact
   array holds the specification matrix through the layout (C04 correspondence). *)
Theorem C05_c_loop_path_cost_for_dtw : forall u (s1 s2 : list point) (W : Z -> Z -> cost),
  let l1 := Z.of_nat (sr s1) in let l2 := Z.of_nat (sc s2) in let w0 := c_window_arg u in
  (1 <= l1)%Z -> (1 <= l2)%Z -> match u_window u with Some w => (1 <= w)%Z | None => True end ->
  (forall (i : nat) (s : Z), (Z.of_nat i <= l1)%Z -> (0 <= s < cw_width l1 l2 w0)%Z ->
     (0 <= s + cw_shift l1 l2 w0 (Z.of_nat i - 1) <= l2)%Z ->
     ((s + cw_shift l1 l2 w0 (Z.of_nat i - 1))%Z = 0%Z -> (Z.of_nat i <= cw_ri2 l1 l2 w0)%Z) ->
     W (Z.of_nat i) s = Mfun u s1 s2 i (Z.to_nat (s + cw_shift l1 l2 w0 (Z.of_nat i - 1)))) ->
  forall fuel i j wpsi, (i + j <= fuel)%nat -> (Z.of_nat i <= l1)%Z -> (Z.of_nat j <= l2)%Z -> Mfun u s1 s2 i j <> Inf ->
  wpsi = (Z.of_nat j - cw_shift l1 l2 w0 (Z.of_nat i - 1))%Z ->
  wpath_cost u s1 s2 i j (c_trace l1 l2 w0 (adj_penalty u) W fuel i j wpsi) = Some (Mfun u s1 s2 i j).
Proof. exact c_loop_path_cost_for_dtw. Qed.

(* (5) End to end, no hypothesis about the array left: the compact array as the FILL loops leave it (CFillSim.stored: the
   loops as written over the regenerated geometry and recurrence text; no pruning inside the loop, exact arithmetic) holds
   the specification matrix through the layout, so the path the C loop traces from the slot of a finite cell of the array
   the engine filled itself costs exactly the value of that cell. *)
Theorem C05_c_fill_then_trace : forall u (s1 s2 : list point),
  let l1 := Z.of_nat (sr s1) in let l2 := Z.of_nat (sc s2) in let w0 := c_window_arg u in
  (1 <= l1)%Z -> (1 <= l2)%Z -> match u_window u with Some w => (1 <= w)%Z | None => True end ->
  forall fuel i j, (i + j <= fuel)%nat -> (Z.of_nat i <= l1)%Z -> (Z.of_nat j <= l2)%Z -> Mfun u s1 s2 i j <> Inf ->
  wpath_cost u s1 s2 i j
    (c_trace l1 l2 w0 (adj_penalty u)
       (fun row s => stored l1 l2 w0 (cell u s1 s2) (adj_penalty u) (psi_1b u) (psi_2b u) (Z.to_nat row) s)
       fuel i j (Z.of_nat j - cw_shift l1 l2 w0 (Z.of_nat i - 1))%Z)
  = Some (Mfun u s1 s2 i j).
Proof. exact c_fill_then_trace. Qed.

(* (6) ... and with the REAL fill: the kernel dtw_warping_paths_ndim regenerated whole from dd_dtw.c (Gen_cwpsk.v), run
   without a bound on any buffer, leaves an array on which the C traceback loop traces, from the slot of any finite cell,
   a path that costs exactly the value of that cell.  (CWpsSpec.v for the kernel, CTraceSim.v for the loop.) *)
From DV Require Import Engines CDistSpec CLang CWpsFinal.
From DVGen Require Import Gen_cwps Gen_cwpsk.

Theorem C05_c_kernel_then_trace :
  forall (window p m mld : Z) (psi : (nat * nat) * (nat * nat)), (0 <= window)%Z ->
  let usq := c_to_u (cs_of window p m mld psi SqEuclid) in
  forall (s1 s2 : list point) (d : nat),
  (forall q, In q s1 -> List.length q = d) -> (forall q, In q s2 -> List.length q = d) ->
  (1 <= List.length s1)%nat -> (1 <= List.length s2)%nat ->
  (psi_1b usq <= List.length s1)%nat -> (psi_2b usq <= List.length s2)%nat ->
  forall ce0 shiftf ced1 ced2 (wps0 : list cost) psi_neg idist zp1e zp2e,
  let l1 := Z.of_nat (List.length s1) in let l2 := Z.of_nat (List.length s2) in
  let W := cw_width l1 l2 window in
  Z.of_nat (List.length wps0) = ((l1 + 1) * W)%Z -> (idist =? 1)%Z = false ->
  exists wps',
    c_dtw_warping_paths_ndim ce0 shiftf ced1 ced2 wps0 (List.concat s1) l1 (List.concat s2) l2 false true psi_neg (Z.of_nat d)
      ((l1 + 1) * W)%Z (c_parts_ldiff l1 l2) (c_parts_ldiffr l1 l2 (c_parts_ldiff l1 l2))
      (c_parts_ldiffc l1 l2 (c_parts_ldiff l1 l2)) (c_parts_window l1 l2 window) W ((l1 + 1) * W)%Z
      (c_parts_ri1 l1 (c_parts_overlap_left l1 (c_parts_ldiffr l1 l2 (c_parts_ldiff l1 l2)) (c_parts_window l1 l2 window))
                      (c_parts_overlap_right l1 (c_parts_ldiffr l1 l2 (c_parts_ldiff l1 l2)) (c_parts_window l1 l2 window)))
      (c_parts_ri2 l1 (c_parts_overlap_left l1 (c_parts_ldiffr l1 l2 (c_parts_ldiff l1 l2)) (c_parts_window l1 l2 window)))
      (c_parts_ri3 l1 (c_parts_overlap_left l1 (c_parts_ldiffr l1 l2 (c_parts_ldiff l1 l2)) (c_parts_window l1 l2 window))
                      (c_parts_overlap_right l1 (c_parts_ldiffr l1 l2 (c_parts_ldiff l1 l2)) (c_parts_window l1 l2 window)))
      (adj_max_step usq) Inf (Fin (adj_penalty usq)) idist false (Z.of_nat (psi_1b usq)) zp1e (Z.of_nat (psi_2b usq)) zp2e false
    = (RPlain (Fin (-1)), wps', true) /\
    forall fuel i j, (i + j <= fuel)%nat -> (Z.of_nat i <= l1)%Z -> (Z.of_nat j <= l2)%Z -> Mfun usq s1 s2 i j <> Inf ->
      wpath_cost usq s1 s2 i j
        (c_trace l1 l2 window (adj_penalty usq) (fun row s => aget wps' (row * W + s)) fuel i j
                 (Z.of_nat j - cw_shift l1 l2 window (Z.of_nat i - 1))%Z)
      = Some (Mfun usq s1 s2 i j).
Proof. intros window p m mld psi Hw usq s1 s2 d Hd1 Hd2 H1 H2 Hp1 Hp2. exact (c_kernel_then_trace window p m mld psi Hw s1 s2 d Hd1 Hd2 H1 H2 Hp1 Hp2). Qed.

(* (7) The START CELL on a psi-relaxed end.  dtw_best_path (C) scans the chains of -1 marks of the last column and the
   last row and then chooses among the two candidates with a four-way rule, regenerated from dd_dtw.c as
   Gen_ctrace.c_bestpath_end (the translator also pins the relaxed-end test, the two scan loops and the call of the
   custom-start traceback).  It is the rule of dtw.best_path / _relaxed_end as modelled in RelaxedEnd.v, for which
   C05_warping_path_cost_is_distance is proved: given the same scan results and the same two cells, both engines start
   the traceback in the same cell. *)
From DV Require Import CTraceEnd.

Theorem C05_c_start_cell_rule_is_the_python_rule :
  forall (r c rr cc psi_1e psi_2e : nat) (vr vc : cost), (rr <= r)%nat -> (cc <= c)%nat ->
  c_bestpath_end (Z.of_nat r) (Z.of_nat c) (Z.of_nat rr) (Z.of_nat cc) (Z.of_nat psi_1e) (Z.of_nat psi_2e) vr vc =
  (Z.of_nat (fst (py_end_rule r c rr cc psi_1e psi_2e vr vc)), Z.of_nat (snd (py_end_rule r c rr cc psi_1e psi_2e vr vc))).
Proof. exact c_end_rule_is_py_end_rule. Qed.

Theorem C05_relaxed_end_is_that_rule :
  forall (val : nat -> nat -> cost) (r c psi_1e psi_2e : nat),
  relaxed_end val r c psi_1e psi_2e =
  if negb (marked val r c psi_1e psi_2e r c) then (r, c)
  else py_end_rule r c (scan_up val r c psi_1e psi_2e r r) (scan_left val r c psi_1e psi_2e c c) psi_1e psi_2e
         (val (scan_up val r c psi_1e psi_2e r r) c) (val r (scan_left val r c psi_1e psi_2e c c)).
Proof. exact relaxed_end_is_the_rule. Qed.
