(* C06 -- the functions regenerated from dtw.py (Gen_matrix) implement the
   layout specification `pairs`: advertised length, row-major fill order of the
   compact result, and the condensed-index helper. *)
From Coq Require Import ZArith List.
From DV Require Import Prelude Matrix MatrixProofs.
From DVGen Require Import Gen_matrix.

Theorem C06_length_is_number_of_pairs : forall n blk, (0 <= n)%Z -> valid_block n blk ->
  gen_length n blk = Z.of_nat (length (pairs n blk)).
Proof. exact gen_length_spec. Qed.

Theorem C06_compact_is_map_over_pairs : forall (A : Type) (dflt : A) (dist : Z -> Z -> A) n blk,
  (0 <= n)%Z -> valid_block n blk ->
  gen_matrix dflt dist n blk = map (fun rc => dist (fst rc) (snd rc)) (pairs n blk).
Proof. exact gen_matrix_spec. Qed.

Theorem C06_condensed_index : forall a b n, (0 <= a < n)%Z -> (0 <= b < n)%Z -> a <> b ->
  exists idx, py_distance_array_index a b n = Some idx /\ (0 <= idx)%Z /\
              nth_error (pairs n no_block) (Z.to_nat idx) = Some (Z.min a b, Z.max a b).
Proof. exact condensed_index_spec. Qed.

(* The four serial C routines (loop bounds, column-start rule and 0 -> n corrections regenerated from dd_dtw.c)
   enumerate exactly the specification's pairs in the specification's order, and dtw_distances_length returns
   their number for every block. *)
From DV Require Import CMatrix.
From DVGen Require Import Gen_cmatrix.

Theorem C06_c_routines_enumerate_the_pairs : forall n blk, (0 <= n)%Z -> strict_block n blk ->
  c_pairs c_dtw_distances_ptrs_re c_dtw_distances_ptrs_ce c_dtw_distances_ptrs_row_start c_dtw_distances_ptrs_row_end
          c_dtw_distances_ptrs_col_start c_dtw_distances_ptrs_col_end n blk = pairs n blk /\
  c_pairs c_dtw_distances_matrix_re c_dtw_distances_matrix_ce c_dtw_distances_matrix_row_start c_dtw_distances_matrix_row_end
          c_dtw_distances_matrix_col_start c_dtw_distances_matrix_col_end n blk = pairs n blk /\
  c_pairs c_dtw_distances_ndim_matrix_re c_dtw_distances_ndim_matrix_ce c_dtw_distances_ndim_matrix_row_start
          c_dtw_distances_ndim_matrix_row_end c_dtw_distances_ndim_matrix_col_start c_dtw_distances_ndim_matrix_col_end n blk
    = pairs n blk /\
  c_pairs c_dtw_distances_ndim_ptrs_re c_dtw_distances_ndim_ptrs_ce c_dtw_distances_ndim_ptrs_row_start
          c_dtw_distances_ndim_ptrs_row_end c_dtw_distances_ndim_ptrs_col_start c_dtw_distances_ndim_ptrs_col_end n blk
    = pairs n blk.
Proof.
  intros n blk Hn Hv. repeat split;
    [apply c_pairs_dtw_distances_ptrs|apply c_pairs_dtw_distances_matrix|apply c_pairs_dtw_distances_ndim_matrix
    |apply c_pairs_dtw_distances_ndim_ptrs]; assumption.
Qed.

Theorem C06_c_length_is_number_of_pairs : forall n blk, (0 <= n)%Z -> b_some blk = true ->
  (0 <= fst (b_rows blk) < snd (b_rows blk))%Z -> (snd (b_rows blk) <= n)%Z ->
  (0 <= fst (b_cols blk) < snd (b_cols blk))%Z -> (snd (b_cols blk) <= n)%Z ->
  c_length_block blk = Z.of_nat (length (pairs n blk)).
Proof. exact c_length_is_number_of_pairs. Qed.

(* every C matrix loop (serial and OpenMP) hands (row series, column series), in this order, to the single-pair
   routine: table regenerated from the call sites *)
From Coq Require Import String Bool.
From DVGen Require Import Gen_ccalls.
Theorem C06_c_loops_call_row_then_column :
  forallb (fun t => snd t) c_matrix_calls = true /\ List.length c_matrix_calls = 10%nat.
Proof. vm_compute. split; reflexivity. Qed.

(* dtw.distance_matrix returns an empty result before computing anything in exactly ONE place (the translator pins the two
   statements under `if block is not None:` and the set of return statements of the function), and the condition of that
   early return - regenerated as py_dm_early_empty - is met only by blocks that select no pair at all. *)
Theorem C06_early_empty_result_only_for_empty_selections : forall n blk, b_some blk = true -> valid_block n blk ->
  py_dm_early_empty (fst (b_rows blk)) (snd (b_rows blk)) (fst (b_cols blk)) (snd (b_cols blk)) = true ->
  pairs n blk = nil.
Proof. exact early_empty_selects_nothing. Qed.
