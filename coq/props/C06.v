(* C06 -- the functions regenerated from dtw.py (Gen_matrix) implement the
   layout specification `pairs`: advertised length, row-major fill order of the
   compact result, and the condensed-index helper. *)
From Coq Require Import ZArith List.
From DV Require Import Prelude Matrix MatrixProofs.
From DVGen Require Import Gen_matrix.

Theorem C06_length_is_number_of_pairs : forall n blk, (0 <= n)%Z -> valid_block n blk ->
  gen_length n blk = Z.of_nat (length (pairs n blk)).
Proof. exact gen_length_spec. Qed.

Theorem C06_compact_is_map_over_pairs : forall (A : Type) (dflt : A) (dist : Z -> Z -> A) n blk,
  (0 <= n)%Z -> valid_block n blk ->
  gen_matrix dflt dist n blk = map (fun rc => dist (fst rc) (snd rc)) (pairs n blk).
Proof. exact gen_matrix_spec. Qed.

Theorem C06_condensed_index : forall a b n, (0 <= a < n)%Z -> (0 <= b < n)%Z -> a <> b ->
  exists idx, py_distance_array_index a b n = Some idx /\ (0 <= idx)%Z /\
              nth_error (pairs n no_block) (Z.to_nat idx) = Some (Z.min a b, Z.max a b).
Proof. exact condensed_index_spec. Qed.
