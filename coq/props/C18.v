(* C18 (partial) -- local-concurrence matches: traced paths are contiguous,
   monotone, run through positive cells and never reuse a cell of an earlier
   match (whose cells were negated).  The recurrence of the affinity matrix
   itself involves exp and float arithmetic: it is checked by correspondence
   against a reference implementation of the documented equation; the C engine
   is compared with the Python one there. *)
From Coq Require Import ZArith List.
From DV Require Import Affinity.

Theorem C18_traced_cells_positive : forall wp fuel i j xy,
  In xy (tl (trace wp fuel i j)) -> (0 < wp (fst xy) (snd xy))%Z.
Proof. exact trace_tail_positive. Qed.

Theorem C18_traced_path_contiguous_monotone : forall wp fuel i j, steps_ok (trace wp fuel i j).
Proof. exact trace_steps_ok. Qed.

Theorem C18_no_cell_reuse : forall wp used fuel i j,
  (forall xy, In xy used -> (wp (fst xy) (snd xy) <= 0)%Z) -> (0 < wp i j)%Z ->
  forall xy, In xy (trace wp fuel i j) -> ~ In xy used.
Proof. exact no_reuse. Qed.

Theorem C18_negated_cells_are_nonpositive : forall wp cells xy,
  In xy cells -> (0 <= wp (fst xy) (snd xy))%Z -> (negate wp cells (fst xy) (snd xy) <= 0)%Z.
Proof. exact negate_nonpos. Qed.
