(* C20 (partial) -- container independence at the C boundary: a series that went
   through verify_np_array is read by the C engine as its logical content,
   whatever its strides (and verify does not change the content); without the
   guard a strided view is misread (witness).  The table of all call sites from
   the Python layer into pointer-taking compiled routines is regenerated from
   the sources on every run; every site is guarded except the explicitly listed
   ones (recorded findings).  Purity and history independence of the pure-Python
   code are checked on the implementation (bitwise snapshots). *)
From Coq Require Import ZArith List String Bool.
From DV Require Import Views.
From DVGen Require Import Gen_calls.
Import ListNotations.
Open Scope string_scope.

Theorem C20_guarded_read_is_logical : forall v, c_reads (verify v) = logical v.
Proof. exact guarded_read_is_logical. Qed.

Theorem C20_verify_preserves_content : forall v, logical (verify v) = logical v.
Proof. exact verify_preserves_content. Qed.

Theorem C20_unguarded_read_refuted : exists v, c_reads v <> logical v.
Proof. exact unguarded_read_refuted. Qed.

(* every call site hands its series through the contiguity guard (all formerly unguarded sites were repaired) *)
Definition site_ok (s : string * string * string * string * bool) : bool :=
  let '(_, _, _, _, guarded) := s in guarded.

Theorem C20_all_call_sites_guarded : forallb site_ok c_call_sites = true.
Proof. vm_compute. reflexivity. Qed.

Theorem C20_call_site_table_nonempty : (30 <=? List.length c_call_sites)%nat = true.
Proof. vm_compute. reflexivity. Qed.
