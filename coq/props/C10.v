(* C10 -- identity, non-negativity, symmetry and option monotonicity of the DTW
   model (which C01/C02 tie to both engines). *)
From Coq Require Import ZArith List.
From DV Require Import Cost Dtw DtwSpec DtwProps.

Theorem C10_identity : forall u s,
  pen_ok u -> max_step_ok u -> (1 <= eff_window u (length s) (length s))%Z ->
  (match u_max_length_diff u with Some m => (0 <= m)%Z | None => True end) ->
  dtw_model u s s = Fin 0.
Proof. exact dtw_model_identity. Qed.

Theorem C10_nonneg : forall u s1 s2, pen_ok u -> cle (Fin 0) (dtw_model u s1 s2).
Proof. exact dtw_model_nonneg. Qed.

Theorem C10_symmetry : forall u s1 s2, dtw_model (swap_psi u) s2 s1 = dtw_model u s1 s2.
Proof. exact dtw_model_sym. Qed.

(* window / psi / max_step relaxed, penalty lowered  =>  the distance does not increase *)
Theorem C10_monotone : forall u u' s1 s2,
  relaxes u' u (length s1) (length s2) -> cle (dtw_value u' s1 s2) (dtw_value u s1 s2).
Proof. exact dtw_value_relax. Qed.

From DV Require Import Bounds.
(* window 1 on equal-length series: the only admissible path is the diagonal *)
Theorem C10_window1_is_euclidean : forall u s1 s2,
  length s1 = length s2 -> eff_window u (length s1) (length s2) = 1%Z ->
  adj_max_step u = Inf -> u_psi u = ((0%nat, 0%nat), (0%nat, 0%nat)) ->
  dtw_value u s1 s2 = Fin (ed_model (u_inner u) s1 s2).
Proof. exact w1_is_ed. Qed.
