(* C10 -- identity, non-negativity, symmetry and option monotonicity of the DTW
   model (which C01/C02 tie to both engines). *)
From Coq Require Import ZArith List.
From DV Require Import Cost Dtw DtwSpec DtwProps.

Theorem C10_identity : forall u s,
  pen_ok u -> max_step_ok u -> (1 <= eff_window u (length s) (length s))%Z ->
  (match u_max_length_diff u with Some m => (0 <= m)%Z | None => True end) ->
  dtw_model u s s = Fin 0.
Proof. exact dtw_model_identity. Qed.

Theorem C10_nonneg : forall u s1 s2, pen_ok u -> cle (Fin 0) (dtw_model u s1 s2).
Proof. exact dtw_model_nonneg. Qed.

Theorem C10_symmetry : forall u s1 s2, dtw_model (swap_psi u) s2 s1 = dtw_model u s1 s2.
Proof. exact dtw_model_sym. Qed.

(* window / psi / max_step relaxed, penalty lowered  =>  the distance does not increase *)
Theorem C10_monotone : forall u u' s1 s2,
  relaxes u' u (length s1) (length s2) -> cle (dtw_value u' s1 s2) (dtw_value u s1 s2).
Proof. exact dtw_value_relax. Qed.

From DV Require Import Bounds.
(* window 1 on equal-length series: the only admissible path is the diagonal *)
Theorem C10_window1_is_euclidean : forall u s1 s2,
  length s1 = length s2 -> eff_window u (length s1) (length s2) = 1%Z ->
  adj_max_step u = Inf -> u_psi u = ((0%nat, 0%nat), (0%nat, 0%nat)) ->
  dtw_value u s1 s2 = Fin (ed_model (u_inner u) s1 s2).
Proof. exact w1_is_ed. Qed.

(* The same laws for the routines AS WRITTEN: dtw.distance (rolling buffer, PyDist.dist_model) and its early
   abandoning variant inherit them through the refinement theorems of C01 / C03. *)
From DV Require Import PyDist PyDistProofs Prune PyDistPrune.

Definition guard (u : usettings) (s1 s2 : list point) : Prop :=
  (1 <= eff_window u (length s1) (length s2))%Z /\ (1 <= length s1)%nat /\ (1 <= length s2)%nat /\
  ((psi_1b u < length s1)%nat \/ (psi_2e u < length s2)%nat).

Theorem C10_code_nonneg : forall u s1 s2, guard u s1 s2 -> pen_ok u -> cle (Fin 0) (dist_model u s1 s2).
Proof.
  intros u s1 s2 (Hw & Hr & Hc & Hpsi) Hp. rewrite (dist_model_is_dtw_model u s1 s2 Hw Hr Hc Hpsi). apply dtw_model_nonneg. exact Hp.
Qed.

Theorem C10_code_identity : forall u s, guard u s s ->
  pen_ok u -> max_step_ok u -> (match u_max_length_diff u with Some m => (0 <= m)%Z | None => True end) ->
  dist_model u s s = Fin 0.
Proof.
  intros u s (Hw & Hr & Hc & Hpsi) Hp Hm Hl. rewrite (dist_model_is_dtw_model u s s Hw Hr Hc Hpsi).
  apply dtw_model_identity; assumption.
Qed.

Theorem C10_code_symmetry : forall u s1 s2, guard u s1 s2 -> guard (swap_psi u) s2 s1 ->
  dist_model (swap_psi u) s2 s1 = dist_model u s1 s2.
Proof.
  intros u s1 s2 (Hw & Hr & Hc & Hpsi) (Hw' & Hr' & Hc' & Hpsi').
  rewrite (dist_model_is_dtw_model u s1 s2 Hw Hr Hc Hpsi), (dist_model_is_dtw_model (swap_psi u) s2 s1 Hw' Hr' Hc' Hpsi').
  apply dtw_model_sym.
Qed.

(* early abandoning never changes a value below the bound, for the routine as written *)
Theorem C10_code_pruning_transparent : forall u s1 s2 B, guard u s1 s2 -> pen_ok u ->
  cle (dist_model u s1 s2) B -> distp_model u s1 s2 B = dist_model u s1 s2.
Proof.
  intros u s1 s2 B (Hw & Hr & Hc & Hpsi) Hp Hle.
  rewrite (distp_model_is_bounded_model u s1 s2 B Hw Hr Hc Hp Hpsi).
  rewrite (dist_model_is_dtw_model u s1 s2 Hw Hr Hc Hpsi) in *. unfold dtw_model in *.
  destruct (too_long u s1 s2); [reflexivity|]. unfold bounded. unfold cle in Hle. rewrite Hle. reflexivity.
Qed.
