(* C11 -- multivariate DTW is the same DP with vector point distances.  The
   model is parametric in the point type, so the optimality theorem is the one
   of C01 instantiated at vectors; plus the C stride addressing and d = 1. *)
From Coq Require Import ZArith List.
From DV Require Import Cost Grid Dtw DtwSpec Bounds Ndim.
Import ListNotations.

Theorem C11_vector_lower_bound : forall u (s1 s2 : list point) ij p v,
  In ij (end_cands u s1 s2) -> wpath_cost u s1 s2 (fst ij) (snd ij) p = Some v -> cle (dtw_value u s1 s2) v.
Proof. exact dtw_value_lower. Qed.

Theorem C11_vector_attained : forall u (s1 s2 : list point),
  dtw_value u s1 s2 = Inf \/
  exists ij p, In ij (end_cands u s1 s2) /\ wpath_cost u s1 s2 (fst ij) (snd ij) p = Some (dtw_value u s1 s2).
Proof. exact dtw_value_attained. Qed.

Theorem C11_stride_addressing : forall (s : list point) (d i k : nat),
  (forall p, In p s -> length p = d) -> (i < length s)%nat -> (k < d)%nat ->
  nth (i * d + k) (concat s) 0%Z = nth k (nth i s []) 0%Z.
Proof. exact flatten_stride. Qed.

Theorem C11_d1_point_distance : forall k a b, pdist k [a] [b] = pd1 k a b.
Proof. exact ndim1_pdist. Qed.
