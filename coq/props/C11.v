(* C11 -- multivariate DTW is the same DP with vector point distances.  The
   model is parametric in the point type, so the optimality theorem is the one
   of C01 instantiated at vectors; plus the C stride addressing and d = 1. *)
From Coq Require Import ZArith List.
From DV Require Import Cost Grid Dtw DtwSpec Bounds Ndim.
Import ListNotations.

Theorem C11_vector_lower_bound : forall u (s1 s2 : list point) ij p v,
  In ij (end_cands u s1 s2) -> wpath_cost u s1 s2 (fst ij) (snd ij) p = Some v -> cle (dtw_value u s1 s2) v.
Proof. exact dtw_value_lower. Qed.

Theorem C11_vector_attained : forall u (s1 s2 : list point),
  dtw_value u s1 s2 = Inf \/
  exists ij p, In ij (end_cands u s1 s2) /\ wpath_cost u s1 s2 (fst ij) (snd ij) p = Some (dtw_value u s1 s2).
Proof. exact dtw_value_attained. Qed.

Theorem C11_stride_addressing : forall (s : list point) (d i k : nat),
  (forall p, In p s -> length p = d) -> (i < length s)%nat -> (k < d)%nat ->
  nth (i * d + k) (concat s) 0%Z = nth k (nth i s []) 0%Z.
Proof. exact flatten_stride. Qed.

Theorem C11_d1_point_distance : forall k a b, pdist k [a] [b] = pd1 k a b.
Proof. exact ndim1_pdist. Qed.

(* THE C N-DIMENSIONAL KERNELS AS WRITTEN (Gen_cdist.v / Gen_cwpsk.v, regenerated whole by tools/cfun.py).  The
   coordinate loop `for (d_i...) d += SEDIST(s1[i_idx + d_i], s2[j_idx + d_i])` over the series stored point after
   point IS the vector point distance of the model, so dtw_distance_ndim returns the optimum over warping paths of
   the vector series, and with one coordinate per point it returns what the univariate kernel dtw_distance returns
   on the same numbers - for every series, window, psi, penalty, max_step, bound, pruning on or off. *)
From DV Require Import Engines Prune DtwProps CLang CDistSpec.
From DVGen Require Import Gen_cdist.

Theorem C11_c_ndim_kernel_is_vector_dtw :
  forall (window p m mld : Z) (p1b p1e p2b p2e : nat) (junk : Z -> cost), (0 <= window)%Z -> (0 <= p)%Z ->
  forall (s1 s2 : list point) (d : nat),
  (forall q, In q s1 -> length q = d) -> (forall q, In q s2 -> length q = d) ->
  (1 <= length s1)%nat -> (1 <= length s2)%nat -> (p1b < length s1 \/ p2e < length s2)%nat ->
  forall (ce ced cub : cost) (idist : Z) (md : cost) (prune : bool), (idist =? 1)%Z = false ->
  c_dtw_distance_ndim ce ced cub junk (concat s1) (Z.of_nat (length s1)) (concat s2) (Z.of_nat (length s2)) (Z.of_nat d)
                 idist md mld (Fin m) false (Fin p) (Z.of_nat p1b) (Z.of_nat p1e) (Z.of_nat p2b) (Z.of_nat p2e) prune window =
  ((if too_long (c_to_u (cs_of window p m mld (psi4 p1b p1e p2b p2e) SqEuclid)) s1 s2 then RPlain Inf
    else RSqrt (bounded (c_bound_sq prune ced md)
                  (dtw_value (c_to_u (cs_of window p m mld (psi4 p1b p1e p2b p2e) SqEuclid)) s1 s2))), true).
Proof. exact c_dtw_distance_ndim_spec. Qed.

Lemma concat_scal (f : list Z) : concat (scal f) = f.
Proof. induction f as [|a f IH]; cbn; [reflexivity|]. f_equal. exact IH. Qed.

Theorem C11_c_ndim_kernel_with_one_coordinate_is_the_univariate_kernel :
  forall (window p m mld : Z) (p1b p1e p2b p2e : nat) (junk : Z -> cost), (0 <= window)%Z -> (0 <= p)%Z ->
  forall (f1 f2 : list Z),
  (1 <= length f1)%nat -> (1 <= length f2)%nat -> (p1b < length f1 \/ p2e < length f2)%nat ->
  forall (ce ced cub : cost) (idist : Z) (md : cost) (prune : bool), (idist =? 1)%Z = false ->
  c_dtw_distance_ndim ce ced cub junk f1 (Z.of_nat (length f1)) f2 (Z.of_nat (length f2)) 1
                 idist md mld (Fin m) false (Fin p) (Z.of_nat p1b) (Z.of_nat p1e) (Z.of_nat p2b) (Z.of_nat p2e) prune window =
  c_dtw_distance ce ced cub junk f1 (Z.of_nat (length f1)) f2 (Z.of_nat (length f2))
                 idist md mld (Fin m) false (Fin p) (Z.of_nat p1b) (Z.of_nat p1e) (Z.of_nat p2b) (Z.of_nat p2e) prune window.
Proof.
  intros window p m mld p1b p1e p2b p2e junk Hw Hp f1 f2 H1 H2 Hpsi ce ced cub idist md prune Hid.
  rewrite (c_dtw_distance_spec window p m mld p1b p1e p2b p2e junk Hw Hp f1 f2 ce ced cub idist md prune H1 H2 Hpsi Hid).
  assert (Hd : forall f q, In q (scal f) -> length q = 1%nat).
  { intros f q Hq. unfold scal in Hq. apply in_map_iff in Hq. destruct Hq as (z & <- & _). reflexivity. }
  pose proof (c_dtw_distance_ndim_spec window p m mld p1b p1e p2b p2e junk Hw Hp (scal f1) (scal f2) 1 (Hd f1) (Hd f2)) as HN.
  rewrite !scal_length, !concat_scal in HN. exact (HN H1 H2 Hpsi ce ced cub idist md prune Hid).
Qed.
