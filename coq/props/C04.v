(* C04 -- every cell of the accumulated-cost matrix (model: DtwSpec.wps_matrix)
   is the optimum over partial warping paths ending there; shape; out-of-band = Inf. *)
From Coq Require Import ZArith List Lia.
From DV Require Import Cost Grid Dtw DtwSpec DtwFacts.

Theorem C04_cell_lower_bound : forall u s1 s2 i j p v,
  (i <= sr s1)%nat -> (j <= sc s2)%nat ->
  wpath_cost u s1 s2 i j p = Some v -> cle (mget (wps_matrix u s1 s2) i j) v.
Proof. exact wps_cell_lower. Qed.

Theorem C04_cell_attained : forall u s1 s2 i j,
  (i <= sr s1)%nat -> (j <= sc s2)%nat ->
  exists p, wpath_cost u s1 s2 i j p = Some (mget (wps_matrix u s1 s2) i j).
Proof. exact wps_cell_attained. Qed.

Theorem C04_matrix_shape : forall u s1 s2,
  length (wps_matrix u s1 s2) = S (sr s1) /\
  forall i, (i <= sr s1)%nat -> length (nth i (wps_matrix u s1 s2) nil) = S (sc s2).
Proof. exact wps_matrix_shape. Qed.

Theorem C04_out_of_band_inf : forall u s1 s2 i j,
  (i < sr s1)%nat -> (j < sc s2)%nat ->
  in_band (sr s1) (sc s2) (sw u s1 s2) i j = false ->
  mget (wps_matrix u s1 s2) (S i) (S j) = Inf.
Proof. exact wps_out_of_band. Qed.
