(* C04 -- every cell of the accumulated-cost matrix (model: DtwSpec.wps_matrix)
   is the optimum over partial warping paths ending there; shape; out-of-band = Inf. *)
From Coq Require Import ZArith List Lia.
From DV Require Import Cost Grid Dtw DtwSpec DtwFacts.

Theorem C04_cell_lower_bound : forall u s1 s2 i j p v,
  (i <= sr s1)%nat -> (j <= sc s2)%nat ->
  wpath_cost u s1 s2 i j p = Some v -> cle (mget (wps_matrix u s1 s2) i j) v.
Proof. exact wps_cell_lower. Qed.

Theorem C04_cell_attained : forall u s1 s2 i j,
  (i <= sr s1)%nat -> (j <= sc s2)%nat ->
  exists p, wpath_cost u s1 s2 i j p = Some (mget (wps_matrix u s1 s2) i j).
Proof. exact wps_cell_attained. Qed.

Theorem C04_matrix_shape : forall u s1 s2,
  length (wps_matrix u s1 s2) = S (sr s1) /\
  forall i, (i <= sr s1)%nat -> length (nth i (wps_matrix u s1 s2) nil) = S (sc s2).
Proof. exact wps_matrix_shape. Qed.

Theorem C04_out_of_band_inf : forall u s1 s2 i j,
  (i < sr s1)%nat -> (j < sc s2)%nat ->
  in_band (sr s1) (sc s2) (sw u s1 s2) i j = false ->
  mget (wps_matrix u s1 s2) (S i) (S j) = Inf.
Proof. exact wps_out_of_band. Qed.

(* dtw.warping_paths AS WRITTEN (PyWps.wps_code_model: full matrix, band from the regenerated
   py_wps_j_start/py_wps_j_end, PrunedDTW bookkeeping, border row/column, end scans):
   - without a bound the computed matrix IS the specification matrix, cell by cell;
   - with a bound B (max_dist / Euclidean bound) every computed cell either equals the specification
     cell or both exceed B -- exactly the freedom the property grants -- and the value is the
     specification value cut at B. *)
From DV Require Import DtwProps Prune PyDistPrune PyWps PyWpsProofs.
Import ListNotations.

Theorem C04_code_matrix_is_spec : forall u s1 s2,
  (1 <= eff_window u (length s1) (length s2))%Z -> (1 <= length s1)%nat -> (1 <= length s2)%nat -> pen_ok u ->
  (psi_1b u < length s1)%nat \/ (psi_2e u < length s2)%nat ->
  forall i j, (i <= length s1)%nat -> (j <= length s2)%nat ->
  mget (wps_code_matrix u s1 s2 Inf) i j = mget (wps_matrix u s1 s2) i j.
Proof. exact wps_code_matrix_exact. Qed.

Theorem C04_code_matrix_with_bound : forall u s1 s2 B,
  (1 <= eff_window u (length s1) (length s2))%Z -> (1 <= length s1)%nat -> (1 <= length s2)%nat -> pen_ok u ->
  (psi_1b u < length s1)%nat \/ (psi_2e u < length s2)%nat ->
  forall i j, (i <= length s1)%nat -> (j <= length s2)%nat ->
  let x := mget (wps_code_matrix u s1 s2 B) i j in let y := mget (wps_matrix u s1 s2) i j in
  x = y \/ (cleb x B = false /\ cleb y B = false).
Proof. exact wps_code_matrix_cells. Qed.

Theorem C04_code_value : forall u s1 s2 B,
  (1 <= eff_window u (length s1) (length s2))%Z -> (1 <= length s1)%nat -> (1 <= length s2)%nat -> pen_ok u ->
  (psi_1b u < length s1)%nat \/ (psi_2e u < length s2)%nat ->
  wps_code_value u s1 s2 B (wps_code_matrix u s1 s2 B) true = bounded B (dtw_value u s1 s2).
Proof. intros u s1 s2 B Hw Hr Hc Hp Hpsi. apply (wps_code_value_spec u s1 s2 B Hw Hr Hc Hp Hpsi true). reflexivity. Qed.

Definition ex4_u := {| u_window := Some 2%Z; u_penalty := Some 1%Z; u_max_step := None; u_max_length_diff := None;
                       u_psi := ((1, 0), (0, 1))%nat; u_inner := SqEuclid |}.
Example C04_code_model_nonvacuous :
  wps_code_model ex4_u [[0]; [3]; [1]; [2]]%Z [[0]; [1]; [1]]%Z Inf true =
  Some (dtw_value ex4_u [[0]; [3]; [1]; [2]]%Z [[0]; [1]; [1]]%Z, wps_matrix ex4_u [[0]; [3]; [1]; [2]]%Z [[0]; [1]; [1]]%Z)
  /\ dtw_value ex4_u [[0]; [3]; [1]; [2]]%Z [[0]; [1]; [1]]%Z <> Inf.
Proof. vm_compute. split; [reflexivity|discriminate]. Qed.

(* ---- the C engine's matrix: the fill loops write column ci of row ri to the layout slot ci + 1 - shift(ri) and the
   expand loops read that same slot and write it to row ri + 1 - rb, column ci + 1 - cb of the output (tables of both
   loop families regenerated from dd_dtw.c): what dtw_expand_wps[_slice] returns at a cell is what the fill kernel
   stored for that cell.  (That the stored VALUE is the recurrence's is the correspondence leg; the compact content is
   also judged directly through the layout.) *)
From Coq Require Import String.
From DV Require Import CWps CFill CExpand CFillSim.
From DVGen Require Import Gen_cfill Gen_cexpand.

Theorem C04_c_fill_and_expand_agree_on_the_slot : forall l1 l2 window0 rb re cb ce,
  (1 <= l1)%Z -> (1 <= l2)%Z -> (0 <= window0)%Z -> (0 <= rb < re)%Z -> (re <= l1 + 1)%Z -> (0 <= cb < ce)%Z -> (ce <= l2 + 1)%Z ->
  (forall r, In r fill_regions -> region_ok l1 l2 window0 r) /\
  (forall r, In r expand_regions -> expand_ok l1 l2 window0 rb re cb ce r).
Proof.
  intros. split; [apply fill_regions_follow_the_layout; assumption|apply expand_regions_follow_the_layout; assumption].
Qed.

(* What the C fill loops STORE: the loops as written (row by row, cell by cell, every value computed from the array at the
   regenerated offsets with the recurrence text the translator checks, the rest of each row infinite) leave an array that
   holds the specification matrix through the layout -- every slot of every row; the border column only in the rows above
   the left overlap, where the kernels keep it (this is the border difference recorded as finding F23). *)
Theorem C04_c_fill_stores_the_matrix : forall l1 l2 window0, (1 <= l1)%Z -> (1 <= l2)%Z -> (0 <= window0)%Z ->
  forall (d : nat -> nat -> cost) pen p1b p2b,
  (forall ri ci : nat, (Z.of_nat ri < l1)%Z ->
     ~ (blo l1 l2 window0 (Z.of_nat ri) <= Z.of_nat ci < bhi l1 l2 window0 (Z.of_nat ri))%Z -> d ri ci = Inf) ->
  forall i, (Z.of_nat i <= l1)%Z -> holds l1 l2 window0 d pen p1b p2b i (stored l1 l2 window0 d pen p1b p2b i).
Proof. exact stored_holds. Qed.

Theorem C04_c_recurrence_texts : forall r, In r fill_regions ->
  (fr_kernel r = "dtw_warping_paths_ndim" \/ fr_kernel r = "dtw_warping_paths_ndim_euclidean")%string ->
  fr_recurrence r = "MIN3:W+p.penalty,W,W+p.penalty;store=d+MIN3"%string.
Proof. exact distance_kernels_use_min3. Qed.

(* the executable form of that array (materialised rows; what the correspondence check compares with the array the C
   kernel returns, slot by slot) holds the matrix just the same *)
Theorem C04_c_fill_rows_store_the_matrix : forall l1 l2 window0, (1 <= l1)%Z -> (1 <= l2)%Z -> (0 <= window0)%Z ->
  forall (d : nat -> nat -> cost) pen p1b p2b,
  (forall ri ci : nat, (Z.of_nat ri < l1)%Z ->
     ~ (blo l1 l2 window0 (Z.of_nat ri) <= Z.of_nat ci < bhi l1 l2 window0 (Z.of_nat ri))%Z -> d ri ci = Inf) ->
  forall i, (Z.of_nat i <= l1)%Z ->
  holds l1 l2 window0 d pen p1b p2b i (of_list (stored_rows l1 l2 window0 d pen p1b p2b i)).
Proof. exact stored_rows_hold. Qed.

(* dtw.warping_paths AS REGENERATED (Gen_pywps.v: the body from the List.length test to the end of the row loop, translated
   by tools/pyfun.py; the (r+1) x (c+1) NumPy matrix is a flat row-major list and both coordinates of every 2-D subscript
   are checked in the flag returned next to it).  Without a bound every cell of the matrix the code fills IS the
   specification cell (the optimum over partial paths, C04_cell_lower_bound / C04_cell_attained), the matrix has
   (r+1) * (c+1) cells and no subscript is out of range; with a bound B every cell is the specification cell or both
   exceed B. *)
From DV Require Import CLang PyDistPrune PyWpsGen.
From DVGen Require Import Gen_pywps.

Theorem C04_py_warping_paths_fill_as_written :
  forall (u : usettings) (s1 s2 : list point) (idist : Z -> Z -> cost) (f1 f2 : list Z) mld mld_some zp1e zp2e,
  (1 <= eff_window u (List.length s1) (List.length s2))%Z -> (1 <= List.length s1)%nat -> (1 <= List.length s2)%nat ->
  (psi_1b u <= List.length s1)%nat -> (psi_2b u <= List.length s2)%nat ->
  (forall i j, (i < List.length s1)%nat -> (j < List.length s2)%nat ->
     idist (Z.of_nat i) (Z.of_nat j) = Fin (pdist (u_inner u) (nth i s1 []) (nth j s2 []))) ->
  pen_ok u -> (psi_1b u < List.length s1 \/ psi_2e u < List.length s2)%nat ->
  exists res, py_wps_fill idist f1 (Z.of_nat (List.length s1)) f2 (Z.of_nat (List.length s2)) Inf mld mld_some (adj_max_step u) true
                (Fin (adj_penalty u)) (Z.of_nat (psi_1b u)) zp1e (Z.of_nat (psi_2b u)) zp2e (eff_window u (List.length s1) (List.length s2)) = (res, true) /\
    (if mld_some && cltb mld (Fin (Z.abs (Z.of_nat (List.length s1) - Z.of_nat (List.length s2)))) then res = None
     else exists dtw, res = Some dtw /\ List.length dtw = ((List.length s1 + 1) * (List.length s2 + 1))%nat /\
          forall i j, (i <= List.length s1)%nat -> (j <= List.length s2)%nat ->
            aget dtw (Z.of_nat i * Z.of_nat (List.length s2 + 1) + Z.of_nat j) = mget (wps_matrix u s1 s2) i j).
Proof. exact py_wps_fill_spec. Qed.

Theorem C04_py_warping_paths_fill_as_written_with_bound :
  forall (u : usettings) (s1 s2 : list point) (B : cost) (idist : Z -> Z -> cost) (f1 f2 : list Z) mld mld_some zp1e zp2e,
  (1 <= eff_window u (List.length s1) (List.length s2))%Z -> (1 <= List.length s1)%nat -> (1 <= List.length s2)%nat ->
  (psi_1b u <= List.length s1)%nat -> (psi_2b u <= List.length s2)%nat ->
  (forall i j, (i < List.length s1)%nat -> (j < List.length s2)%nat ->
     idist (Z.of_nat i) (Z.of_nat j) = Fin (pdist (u_inner u) (nth i s1 []) (nth j s2 []))) ->
  pen_ok u -> (psi_1b u < List.length s1 \/ psi_2e u < List.length s2)%nat ->
  exists res, py_wps_fill idist f1 (Z.of_nat (List.length s1)) f2 (Z.of_nat (List.length s2)) B mld mld_some (adj_max_step u) true
                (Fin (adj_penalty u)) (Z.of_nat (psi_1b u)) zp1e (Z.of_nat (psi_2b u)) zp2e (eff_window u (List.length s1) (List.length s2)) = (res, true) /\
    (if mld_some && cltb mld (Fin (Z.abs (Z.of_nat (List.length s1) - Z.of_nat (List.length s2)))) then res = None
     else exists dtw, res = Some dtw /\ List.length dtw = ((List.length s1 + 1) * (List.length s2 + 1))%nat /\
          forall i j, (i <= List.length s1)%nat -> (j <= List.length s2)%nat ->
            Q B (aget dtw (Z.of_nat i * Z.of_nat (List.length s2 + 1) + Z.of_nat j)) (mget (wps_matrix u s1 s2) i j)).
Proof.
  intros u s1 s2 B idist f1 f2 mld mld_some zp1e zp2e Hw Hr Hc Hp1 Hp2 Hd Hpen Hpsi.
  destruct (py_wps_fill_refines u s1 s2 B idist f1 f2 Hw Hr Hc Hp1 Hp2 Hd mld mld_some zp1e zp2e) as (res & E & H).
  exists res. split; [exact E|].
  destruct (mld_some && cltb mld (Fin (Z.abs (Z.of_nat (List.length s1) - Z.of_nat (List.length s2))))); [exact H|].
  destruct H as (dtw & -> & Hl & Hcells). exists dtw. split; [reflexivity|]. split; [exact Hl|].
  intros i j Hi Hj. rewrite Hcells by assumption. apply wps_code_matrix_cells; assumption.
Qed.

(* THE C KERNEL AS WRITTEN: dtw_warping_paths_ndim regenerated WHOLE from dd_dtw.c (Gen_cwpsk.v, tools/cfun.py: the
   four row regions, their cell loops, the skip/fill loops, the running slot indices).  Run without a bound
   (max_dist = 0 -> infinity, no value requested, squared representation kept) on two series of d-dimensional points
   and ANY buffer of (l1+1) * width cells, with the DTWWps members being the regenerated dtw_wps_parts expressions:
   the kernel returns -1 (no value requested), every subscript in range, and slot s of row i of the buffer IS cell
   (i, s + shift(i-1)) of the specification matrix -- every slot whose column exists, the border column in the rows
   where the kernels keep it.  This is the hypothesis C05_c_traceback_cost_for_dtw makes about the array. *)
From DV Require Import Engines CDistSpec CWpsFinal.
From DVGen Require Import Gen_cwps Gen_cwpsk.

Theorem C04_c_wps_kernel_as_written :
  forall (window p m mld : Z) (psi : (nat * nat) * (nat * nat)), (0 <= window)%Z ->
  let usq := c_to_u (cs_of window p m mld psi SqEuclid) in
  forall (s1 s2 : list point) (d : nat),
  (forall q, In q s1 -> List.length q = d) -> (forall q, In q s2 -> List.length q = d) ->
  (1 <= List.length s1)%nat -> (1 <= List.length s2)%nat ->
  (psi_1b usq <= List.length s1)%nat -> (psi_2b usq <= List.length s2)%nat ->
  forall ce shiftf ced1 ced2 (wps0 : list cost) psi_neg idist zp1e zp2e,
  let l1 := Z.of_nat (List.length s1) in let l2 := Z.of_nat (List.length s2) in
  let W := cw_width l1 l2 window in
  Z.of_nat (List.length wps0) = ((l1 + 1) * W)%Z -> (idist =? 1)%Z = false ->
  exists wps',
    c_dtw_warping_paths_ndim ce shiftf ced1 ced2 wps0 (List.concat s1) l1 (List.concat s2) l2 false true psi_neg (Z.of_nat d)
      ((l1 + 1) * W)%Z (c_parts_ldiff l1 l2) (c_parts_ldiffr l1 l2 (c_parts_ldiff l1 l2))
      (c_parts_ldiffc l1 l2 (c_parts_ldiff l1 l2)) (c_parts_window l1 l2 window) W ((l1 + 1) * W)%Z
      (c_parts_ri1 l1 (c_parts_overlap_left l1 (c_parts_ldiffr l1 l2 (c_parts_ldiff l1 l2)) (c_parts_window l1 l2 window))
                      (c_parts_overlap_right l1 (c_parts_ldiffr l1 l2 (c_parts_ldiff l1 l2)) (c_parts_window l1 l2 window)))
      (c_parts_ri2 l1 (c_parts_overlap_left l1 (c_parts_ldiffr l1 l2 (c_parts_ldiff l1 l2)) (c_parts_window l1 l2 window)))
      (c_parts_ri3 l1 (c_parts_overlap_left l1 (c_parts_ldiffr l1 l2 (c_parts_ldiff l1 l2)) (c_parts_window l1 l2 window))
                      (c_parts_overlap_right l1 (c_parts_ldiffr l1 l2 (c_parts_ldiff l1 l2)) (c_parts_window l1 l2 window)))
      (adj_max_step usq) Inf (Fin (adj_penalty usq)) idist false (Z.of_nat (psi_1b usq)) zp1e (Z.of_nat (psi_2b usq)) zp2e false
    = (CLang.RPlain (Fin (-1)), wps', true) /\
    Z.of_nat (List.length wps') = ((l1 + 1) * W)%Z /\
    forall (i : nat) (s : Z), (Z.of_nat i <= l1)%Z -> (0 <= s < W)%Z ->
      (s + cw_shift l1 l2 window (Z.of_nat i - 1) <= l2)%Z ->
      ((s + cw_shift l1 l2 window (Z.of_nat i - 1))%Z = 0%Z -> (Z.of_nat i <= cw_ri2 l1 l2 window)%Z) ->
      aget wps' (Z.of_nat i * W + s) = mget (wps_matrix usq s1 s2) i (Z.to_nat (s + cw_shift l1 l2 window (Z.of_nat i - 1))).
Proof. intros window p m mld psi Hw usq s1 s2 d Hd1 Hd2 H1 H2 Hp1 Hp2. exact (c_wps_kernel_stores_spec_matrix window p m mld psi Hw s1 s2 d Hd1 Hd2 H1 H2 Hp1 Hp2). Qed.

(* ... and RUN FOR ITS VALUE (return_dtw = true; the -1 marks not requested), with the end-of-series scans calling the
   regenerated dtw_wps_shift: the value returned is the DTW value of the specification (the optimum over all
   admissible warping paths, C01) - what C02_c_dtw_distance_ndim_as_written shows the distance-only kernel returns
   under its square root - whether it is read at the corner or found by the two downward scans with their `break`;
   with keep_int_repr = false the value and every positive cell are replaced by their square roots (sq_repr). *)
From DV Require Import CWpsValue.

Theorem C04_c_wps_kernel_returns_the_dtw_value :
  forall (window p m mld : Z) (psi : (nat * nat) * (nat * nat)), (0 <= window)%Z ->
  let usq := c_to_u (cs_of window p m mld psi SqEuclid) in
  forall (s1 s2 : list point) (d : nat),
  (forall q, In q s1 -> List.length q = d) -> (forall q, In q s2 -> List.length q = d) ->
  (1 <= List.length s1)%nat -> (1 <= List.length s2)%nat ->
  (psi_1b usq <= List.length s1)%nat -> (psi_2b usq <= List.length s2)%nat ->
  forall ce ced1 ced2 (wps0 : list cost) (keep : bool) idist,
  let l1 := Z.of_nat (List.length s1) in let l2 := Z.of_nat (List.length s2) in
  let W := cw_width l1 l2 window in
  Z.of_nat (List.length wps0) = ((l1 + 1) * W)%Z -> (idist =? 1)%Z = false ->
  exists wps',
    c_dtw_warping_paths_ndim ce (cw_shift l1 l2 window) ced1 ced2 wps0 (List.concat s1) l1 (List.concat s2) l2 true keep false (Z.of_nat d)
      ((l1 + 1) * W)%Z (c_parts_ldiff l1 l2) (c_parts_ldiffr l1 l2 (c_parts_ldiff l1 l2))
      (c_parts_ldiffc l1 l2 (c_parts_ldiff l1 l2)) (c_parts_window l1 l2 window) W ((l1 + 1) * W)%Z
      (c_parts_ri1 l1 (c_parts_overlap_left l1 (c_parts_ldiffr l1 l2 (c_parts_ldiff l1 l2)) (c_parts_window l1 l2 window))
                      (c_parts_overlap_right l1 (c_parts_ldiffr l1 l2 (c_parts_ldiff l1 l2)) (c_parts_window l1 l2 window)))
      (c_parts_ri2 l1 (c_parts_overlap_left l1 (c_parts_ldiffr l1 l2 (c_parts_ldiff l1 l2)) (c_parts_window l1 l2 window)))
      (c_parts_ri3 l1 (c_parts_overlap_left l1 (c_parts_ldiffr l1 l2 (c_parts_ldiff l1 l2)) (c_parts_window l1 l2 window))
                      (c_parts_overlap_right l1 (c_parts_ldiffr l1 l2 (c_parts_ldiff l1 l2)) (c_parts_window l1 l2 window)))
      (adj_max_step usq) Inf (Fin (adj_penalty usq)) idist false (Z.of_nat (psi_1b usq)) (Z.of_nat (psi_1e usq))
      (Z.of_nat (psi_2b usq)) (Z.of_nat (psi_2e usq)) false
    = (CLang.RPlain (sq_repr keep (dtw_value usq s1 s2)), wps', true) /\
    Z.of_nat (List.length wps') = ((l1 + 1) * W)%Z /\
    forall (i : nat) (s : Z), (Z.of_nat i <= l1)%Z -> (0 <= s < W)%Z ->
      (s + cw_shift l1 l2 window (Z.of_nat i - 1) <= l2)%Z ->
      ((s + cw_shift l1 l2 window (Z.of_nat i - 1))%Z = 0%Z -> (Z.of_nat i <= cw_ri2 l1 l2 window)%Z) ->
      aget wps' (Z.of_nat i * W + s)
      = sq_repr keep (mget (wps_matrix usq s1 s2) i (Z.to_nat (s + cw_shift l1 l2 window (Z.of_nat i - 1)))).
Proof. intros window p m mld psi Hw usq s1 s2 d Hd1 Hd2 H1 H2 Hp1 Hp2. exact (c_wps_kernel_returns_the_dtw_value window p m mld psi Hw s1 s2 d Hd1 Hd2 H1 H2 Hp1 Hp2). Qed.

(* THE EUCLIDEAN TWIN dtw_warping_paths_ndim_euclidean, regenerated whole as well: run for its value without a bound it
   returns the DTW value under the Euclidean point distance (inner_dist = "euclidean"), every access in range, and the
   compact array holds that specification matrix through the layout.  (Same proof over the twin's own regenerated loops:
   CWpsCanonEu / CWpsTieEu / CWpsSpecEu.v.) *)
Theorem C04_c_wps_euclidean_kernel_as_written :
  forall (window p m mld : Z) (psi : (nat * nat) * (nat * nat)), (0 <= window)%Z ->
  let uab := c_to_u (cs_of window p m mld psi AbsDiff) in
  forall (s1 s2 : list point) (d : nat),
  (forall q, In q s1 -> List.length q = d) -> (forall q, In q s2 -> List.length q = d) ->
  (1 <= List.length s1)%nat -> (1 <= List.length s2)%nat ->
  (psi_1b uab <= List.length s1)%nat -> (psi_2b uab <= List.length s2)%nat ->
  forall cub1 cub2 (wps0 : list cost) (keep : bool),
  let l1 := Z.of_nat (List.length s1) in let l2 := Z.of_nat (List.length s2) in
  let W := cw_width l1 l2 window in
  Z.of_nat (List.length wps0) = ((l1 + 1) * W)%Z ->
  exists wps',
    c_dtw_warping_paths_ndim_euclidean (cw_shift l1 l2 window) cub1 cub2 wps0 (List.concat s1) l1 (List.concat s2) l2 true keep false (Z.of_nat d)
      ((l1 + 1) * W)%Z (c_parts_ldiff l1 l2) (c_parts_ldiffr l1 l2 (c_parts_ldiff l1 l2))
      (c_parts_ldiffc l1 l2 (c_parts_ldiff l1 l2)) (c_parts_window l1 l2 window) W
      (c_parts_ri1 l1 (c_parts_overlap_left l1 (c_parts_ldiffr l1 l2 (c_parts_ldiff l1 l2)) (c_parts_window l1 l2 window))
                      (c_parts_overlap_right l1 (c_parts_ldiffr l1 l2 (c_parts_ldiff l1 l2)) (c_parts_window l1 l2 window)))
      (c_parts_ri2 l1 (c_parts_overlap_left l1 (c_parts_ldiffr l1 l2 (c_parts_ldiff l1 l2)) (c_parts_window l1 l2 window)))
      (c_parts_ri3 l1 (c_parts_overlap_left l1 (c_parts_ldiffr l1 l2 (c_parts_ldiff l1 l2)) (c_parts_window l1 l2 window))
                      (c_parts_overlap_right l1 (c_parts_ldiffr l1 l2 (c_parts_ldiff l1 l2)) (c_parts_window l1 l2 window)))
      (adj_max_step uab) Inf (Fin (adj_penalty uab)) false (Z.of_nat (psi_1b uab)) (Z.of_nat (psi_1e uab))
      (Z.of_nat (psi_2b uab)) (Z.of_nat (psi_2e uab)) false
    = (CLang.RPlain (dtw_value uab s1 s2), wps', true) /\
    Z.of_nat (List.length wps') = ((l1 + 1) * W)%Z /\
    forall (i : nat) (s : Z), (Z.of_nat i <= l1)%Z -> (0 <= s < W)%Z ->
      (s + cw_shift l1 l2 window (Z.of_nat i - 1) <= l2)%Z ->
      ((s + cw_shift l1 l2 window (Z.of_nat i - 1))%Z = 0%Z -> (Z.of_nat i <= cw_ri2 l1 l2 window)%Z) ->
      aget wps' (Z.of_nat i * W + s) = mget (wps_matrix uab s1 s2) i (Z.to_nat (s + cw_shift l1 l2 window (Z.of_nat i - 1))).
Proof. intros window p m mld psi Hw uab s1 s2 d Hd1 Hd2 H1 H2 Hp1 Hp2. exact (c_wps_eu_kernel_returns_the_dtw_value window p m mld psi Hw s1 s2 d Hd1 Hd2 H1 H2 Hp1 Hp2). Qed.

(* THE C FULL MATRIX, AS WRITTEN END TO END: the regenerated kernel fills the compact array, the regenerated
   dtw_expand_wps_slice (Gen_cexpw.v; dtw_expand_wps passes the whole matrix as the slice) copies it into the
   (re-rb) x (ce-cb) block - for EVERY slice 0 <= rb < re <= l1+1, 0 <= cb < ce <= l2+1 and any content of the caller's
   block: cell (i-rb, j-cb) of the block IS cell (i, j) of the specification matrix, every read and write in range.
   Not claimed: column 0 below the left overlap and row 0 beyond the compact width, which the compact array does not
   keep (known finding F23: psi-relaxed border cells there read infinity). *)
From DV Require Import CExpW.
From DVGen Require Import Gen_cexpw.

Theorem C04_c_fill_then_expand_as_written :
  forall (window p m mld : Z) (psi : (nat * nat) * (nat * nat)), (0 <= window)%Z ->
  let usq := c_to_u (cs_of window p m mld psi SqEuclid) in
  forall (s1 s2 : list point) (d : nat),
  (forall q, In q s1 -> List.length q = d) -> (forall q, In q s2 -> List.length q = d) ->
  (1 <= List.length s1)%nat -> (1 <= List.length s2)%nat ->
  (psi_1b usq <= List.length s1)%nat -> (psi_2b usq <= List.length s2)%nat ->
  forall ce0 shiftf ced1 ced2 (wps0 : list cost) psi_neg idist zp1e zp2e (rb re cb ce : Z) (full0 : list cost),
  let l1 := Z.of_nat (List.length s1) in let l2 := Z.of_nat (List.length s2) in
  let W := cw_width l1 l2 window in
  Z.of_nat (List.length wps0) = ((l1 + 1) * W)%Z -> (idist =? 1)%Z = false ->
  (0 <= rb < re)%Z -> (re <= l1 + 1)%Z -> (0 <= cb < ce)%Z -> (ce <= l2 + 1)%Z ->
  Z.of_nat (List.length full0) = ((re - rb) * (ce - cb))%Z ->
  exists wps' full',
    c_dtw_warping_paths_ndim ce0 shiftf ced1 ced2 wps0 (List.concat s1) l1 (List.concat s2) l2 false true psi_neg (Z.of_nat d)
      ((l1 + 1) * W)%Z (c_parts_ldiff l1 l2) (c_parts_ldiffr l1 l2 (c_parts_ldiff l1 l2))
      (c_parts_ldiffc l1 l2 (c_parts_ldiff l1 l2)) (c_parts_window l1 l2 window) W ((l1 + 1) * W)%Z
      (c_parts_ri1 l1 (c_parts_overlap_left l1 (c_parts_ldiffr l1 l2 (c_parts_ldiff l1 l2)) (c_parts_window l1 l2 window))
                      (c_parts_overlap_right l1 (c_parts_ldiffr l1 l2 (c_parts_ldiff l1 l2)) (c_parts_window l1 l2 window)))
      (c_parts_ri2 l1 (c_parts_overlap_left l1 (c_parts_ldiffr l1 l2 (c_parts_ldiff l1 l2)) (c_parts_window l1 l2 window)))
      (c_parts_ri3 l1 (c_parts_overlap_left l1 (c_parts_ldiffr l1 l2 (c_parts_ldiff l1 l2)) (c_parts_window l1 l2 window))
                      (c_parts_overlap_right l1 (c_parts_ldiffr l1 l2 (c_parts_ldiff l1 l2)) (c_parts_window l1 l2 window)))
      (adj_max_step usq) Inf (Fin (adj_penalty usq)) idist false (Z.of_nat (psi_1b usq)) zp1e (Z.of_nat (psi_2b usq)) zp2e false
    = (CLang.RPlain (Fin (-1)), wps', true) /\
    c_dtw_expand_wps_slice wps' full0 l1 l2 rb re cb ce ((re - rb) * (ce - cb))%Z ((l1 + 1) * W)%Z
      (c_parts_ldiff l1 l2) (c_parts_ldiffc l1 l2 (c_parts_ldiff l1 l2)) (c_parts_window l1 l2 window) W
      (c_parts_ri1 l1 (c_parts_overlap_left l1 (c_parts_ldiffr l1 l2 (c_parts_ldiff l1 l2)) (c_parts_window l1 l2 window))
                      (c_parts_overlap_right l1 (c_parts_ldiffr l1 l2 (c_parts_ldiff l1 l2)) (c_parts_window l1 l2 window)))
      (c_parts_ri2 l1 (c_parts_overlap_left l1 (c_parts_ldiffr l1 l2 (c_parts_ldiff l1 l2)) (c_parts_window l1 l2 window)))
      (c_parts_ri3 l1 (c_parts_overlap_left l1 (c_parts_ldiffr l1 l2 (c_parts_ldiff l1 l2)) (c_parts_window l1 l2 window))
                      (c_parts_overlap_right l1 (c_parts_ldiffr l1 l2 (c_parts_ldiff l1 l2)) (c_parts_window l1 l2 window)))
    = (CLang.RPlain (Fin 0), full', true) /\
    Z.of_nat (List.length full') = ((re - rb) * (ce - cb))%Z /\
    forall i j, (rb <= i < re)%Z -> (cb <= j < ce)%Z -> (j = 0%Z -> (i <= cw_ri2 l1 l2 window)%Z) -> (i = 0%Z -> (j <= W - 1)%Z) ->
      aget full' ((i - rb) * (ce - cb) + (j - cb)) = mget (wps_matrix usq s1 s2) (Z.to_nat i) (Z.to_nat j).
Proof. intros window p m mld psi Hw usq s1 s2 d Hd1 Hd2 H1 H2 Hp1 Hp2. exact (c_fill_then_expand window p m mld psi Hw s1 s2 d Hd1 Hd2 H1 H2 Hp1 Hp2). Qed.

(* "THE RETURNED DISTANCE EQUALS WHAT THE DISTANCE-ONLY ROUTINE RETURNS FOR THE SAME SETTINGS", for the C engine as
   written: the kernel dtw_distance_ndim (Gen_cdist.v) and the warping-paths kernel called with the struct the
   regenerated dtw_wps_parts returns (Gen_cparts.v, CWpsFinal.c_warping_paths_sq), given the same window, max_dist,
   max_step, penalty and psi, return the same value v - the first under its final square root (RSqrt v), the second in the
   internal representation (keep_int_repr; otherwise its own sqrt pass is applied).  max_length_diff is off: the C
   warping-paths kernel does not test it (dtw.warping_paths_fast does, before the call). *)
From DV Require Import CParts Prune.
From DVGen Require Import Gen_cdist.

Theorem C04_c_wps_value_is_the_distance_kernels_value :
  forall (window p m md : Z) (psi : (nat * nat) * (nat * nat)), (0 <= window)%Z -> (0 <= p)%Z ->
  let usq := c_to_u (cs_of window p m 0 psi SqEuclid) in
  forall (s1 s2 : list point) (d : nat),
  (forall q, In q s1 -> List.length q = d) -> (forall q, In q s2 -> List.length q = d) ->
  (1 <= List.length s1)%nat -> (1 <= List.length s2)%nat ->
  (psi_1b usq <= List.length s1)%nat -> (psi_2b usq <= List.length s2)%nat ->
  (psi_1b usq < List.length s1 \/ psi_2e usq < List.length s2)%nat ->
  forall ce ced ced1 ced2 cub junk (wps0 : list cost),
  let l1 := Z.of_nat (List.length s1) in let l2 := Z.of_nat (List.length s2) in
  Z.of_nat (List.length wps0) = ((l1 + 1) * cw_width l1 l2 window)%Z ->
  exists v wps',
    c_dtw_distance_ndim ce ced cub junk (List.concat s1) l1 (List.concat s2) l2 (Z.of_nat d) 0 (Fin md) 0 (Fin m) false (Fin p)
      (Z.of_nat (psi_1b usq)) (Z.of_nat (psi_1e usq)) (Z.of_nat (psi_2b usq)) (Z.of_nat (psi_2e usq)) false window
    = (CLang.RSqrt v, true) /\
    c_warping_paths_sq ce ced1 ced2 wps0 (List.concat s1) l1 (List.concat s2) l2 true true false (Z.of_nat d) window md m p false
      (Z.of_nat (psi_1b usq)) (Z.of_nat (psi_1e usq)) (Z.of_nat (psi_2b usq)) (Z.of_nat (psi_2e usq)) false
    = (CLang.RPlain v, wps', true).
Proof.
  intros window p m md psi Hw Hp usq s1 s2 d Hd1 Hd2 H1 H2 Hp1 Hp2 Hpsi.
  exact (c_wps_value_is_the_distance_kernels_value window p m 0 md psi Hw Hp s1 s2 d Hd1 Hd2 H1 H2 Hp1 Hp2 Hpsi eq_refl).
Qed.

(* THE -1 MARKS (psi_neg = true), for the kernel as written: run for its value with the marks requested, the kernel returns
   the DTW value, that value is the specification cell of an end cell (ie, je) among the psi-relaxed end cells, and the
   compact array holds the specification matrix EXCEPT that the cells of the last column below row ie - or of the last row
   right of column je -, the cells the relaxed end skips, read -1 (CWpsMarks.v: the two scans stop at the FIRST minimum of
   their line, the last column wins only when strictly smaller). *)
From DV Require Import CWpsMarks.

Theorem C04_c_wps_kernel_marks_as_written :
  forall (window p m mld : Z) (psi : (nat * nat) * (nat * nat)), (0 <= window)%Z ->
  let usq := c_to_u (cs_of window p m mld psi SqEuclid) in
  forall (s1 s2 : list point) (d : nat),
  (forall q, In q s1 -> List.length q = d) -> (forall q, In q s2 -> List.length q = d) ->
  (1 <= List.length s1)%nat -> (1 <= List.length s2)%nat ->
  (psi_1b usq <= List.length s1)%nat -> (psi_2b usq <= List.length s2)%nat ->
  forall ce ced1 ced2 (wps0 : list cost) (keep : bool) idist,
  let l1 := Z.of_nat (List.length s1) in let l2 := Z.of_nat (List.length s2) in
  let W := cw_width l1 l2 window in
  Z.of_nat (List.length wps0) = ((l1 + 1) * W)%Z -> (idist =? 1)%Z = false ->
  exists wps' (ie je : nat),
    c_dtw_warping_paths_ndim ce (cw_shift l1 l2 window) ced1 ced2 wps0 (List.concat s1) l1 (List.concat s2) l2 true keep true (Z.of_nat d)
      ((l1 + 1) * W)%Z (c_parts_ldiff l1 l2) (c_parts_ldiffr l1 l2 (c_parts_ldiff l1 l2))
      (c_parts_ldiffc l1 l2 (c_parts_ldiff l1 l2)) (c_parts_window l1 l2 window) W ((l1 + 1) * W)%Z
      (c_parts_ri1 l1 (c_parts_overlap_left l1 (c_parts_ldiffr l1 l2 (c_parts_ldiff l1 l2)) (c_parts_window l1 l2 window))
                      (c_parts_overlap_right l1 (c_parts_ldiffr l1 l2 (c_parts_ldiff l1 l2)) (c_parts_window l1 l2 window)))
      (c_parts_ri2 l1 (c_parts_overlap_left l1 (c_parts_ldiffr l1 l2 (c_parts_ldiff l1 l2)) (c_parts_window l1 l2 window)))
      (c_parts_ri3 l1 (c_parts_overlap_left l1 (c_parts_ldiffr l1 l2 (c_parts_ldiff l1 l2)) (c_parts_window l1 l2 window))
                      (c_parts_overlap_right l1 (c_parts_ldiffr l1 l2 (c_parts_ldiff l1 l2)) (c_parts_window l1 l2 window)))
      (adj_max_step usq) Inf (Fin (adj_penalty usq)) idist false (Z.of_nat (psi_1b usq)) (Z.of_nat (psi_1e usq))
      (Z.of_nat (psi_2b usq)) (Z.of_nat (psi_2e usq)) false
    = (CLang.RPlain (sq_repr keep (dtw_value usq s1 s2)), wps', true) /\
    (dtw_value usq s1 s2 <> Inf -> mget (wps_matrix usq s1 s2) ie je = dtw_value usq s1 s2 /\ In (ie, je) (end_cands usq s1 s2)) /\
    forall (i : nat) (s : Z), (Z.of_nat i <= l1)%Z -> (0 <= s < W)%Z ->
      (s + cw_shift l1 l2 window (Z.of_nat i - 1) <= l2)%Z ->
      ((s + cw_shift l1 l2 window (Z.of_nat i - 1))%Z = 0%Z -> (Z.of_nat i <= cw_ri2 l1 l2 window)%Z) ->
      let col := Z.to_nat (s + cw_shift l1 l2 window (Z.of_nat i - 1)) in
      let skipped := (je = List.length s2 /\ col = List.length s2 /\ (ie < i)%nat) \/ (ie = List.length s1 /\ i = List.length s1 /\ (je < col)%nat) in
      (skipped -> aget wps' (Z.of_nat i * W + s) = Fin (-1)) /\
      (~ skipped -> aget wps' (Z.of_nat i * W + s) = sq_repr keep (mget (wps_matrix usq s1 s2) i col)).
Proof. intros window p m mld psi Hw usq s1 s2 d Hd1 Hd2 H1 H2 Hp1 Hp2. exact (c_wps_kernel_marks window p m mld psi Hw s1 s2 d Hd1 Hd2 H1 H2 Hp1 Hp2). Qed.
