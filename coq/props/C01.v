(* C01 -- the DTW distance (model: DtwSpec.dtw_model, tied to dtw.distance by the
   correspondence check and to the regenerated band/buffer expressions by BandTie)
   is the optimum over admissible warping paths. *)
From Coq Require Import ZArith List Bool.
From DV Require Import Cost Grid Dtw DtwSpec.

Theorem C01_lower_bound : forall u s1 s2 ij p v,
  In ij (end_cands u s1 s2) ->
  wpath_cost u s1 s2 (fst ij) (snd ij) p = Some v ->
  cle (dtw_value u s1 s2) v.
Proof. exact dtw_value_lower. Qed.

Theorem C01_attained : forall u s1 s2,
  dtw_value u s1 s2 = Inf \/
  exists ij p, In ij (end_cands u s1 s2) /\
               wpath_cost u s1 s2 (fst ij) (snd ij) p = Some (dtw_value u s1 s2).
Proof. exact dtw_value_attained. Qed.

(* The model of dtw.distance AS WRITTEN (PyDist.dist_model: two rolling rows of the
   regenerated length, per-row column offset, psi prologue and end scans, all index
   arithmetic taken from the regenerated Gen_dtw.v) computes exactly the specification
   value above -- for every pair of non-empty series and every setting with window >= 1
   in which the empty alignment is excluded.  The correspondence check compares
   dist_model (extracted) with dtw.distance. *)
From DV Require Import PyDist PyDistProofs.
Import ListNotations.

Theorem C01_code_model_is_spec : forall u s1 s2,
  (1 <= eff_window u (length s1) (length s2))%Z ->
  (1 <= length s1)%nat -> (1 <= length s2)%nat ->
  (psi_1b u < length s1)%nat \/ (psi_2e u < length s2)%nat ->
  dist_model u s1 s2 = dtw_model u s1 s2.
Proof. exact dist_model_is_dtw_model. Qed.

(* the hypotheses are satisfiable and the rolling buffer really rolls: window 1, lengths 5 and 4, psi (1,1,1,1) *)
Definition ex_u := {| u_window := Some 1%Z; u_penalty := Some 1%Z; u_max_step := None; u_max_length_diff := None;
                      u_psi := ((1, 1), (1, 1))%nat; u_inner := SqEuclid |}.
Definition ex_s1 : list point := [[1]; [3]; [2]; [5]; [4]]%Z.
Definition ex_s2 : list point := [[2]; [2]; [6]; [4]]%Z.
Example C01_code_model_nonvacuous :
  (((1 <=? eff_window ex_u (length ex_s1) (length ex_s2))%Z && (psi_1b ex_u <? length ex_s1)%nat &&
   (L ex_u ex_s1 ex_s2 <? length ex_s2 + 1)%nat)%bool = true) /\ dist_model ex_u ex_s1 ex_s2 = Fin 2.
Proof. vm_compute. split; reflexivity. Qed.

(* dtw.distance AS REGENERATED.  Gen_pydist.v is the body of dtw.distance (everything after the dispatch to the C
   engine) translated WHOLE by tools/pyfun.py: flat two-row buffer, per-row skip, cell update, sc / ec / ec_next /
   smaller_found / break, psi prologue and scans, comparison with adj_max_dist; every subscript and assert is a
   conjunct of the flag it returns next to the value.  With the settings object decoded as DTWSettings does
   (adj_max_step, adj_penalty, window default = eff_window) and no bound, it returns the minimum over admissible
   warping paths, and no subscript or assert fails.  `idist` is the inner-distance callable (any function that
   agrees with the model's point distance on the index pairs of the two series), RSqrt v stands for result_fn(v). *)
From DV Require Import DtwProps CLang PyDistGen.
From DVGen Require Import Gen_pydist.

Theorem C01_py_distance_as_written :
  forall (u : usettings) (s1 s2 : list point) (idist : Z -> Z -> cost) (f1 f2 : list Z) ced mld mld_some,
  (1 <= eff_window u (length s1) (length s2))%Z -> (1 <= length s1)%nat -> (1 <= length s2)%nat ->
  (forall i j, (i < length s1)%nat -> (j < length s2)%nat ->
     idist (Z.of_nat i) (Z.of_nat j) = Fin (pdist (u_inner u) (nth i s1 []) (nth j s2 []))) ->
  pen_ok u -> (psi_1b u < length s1 \/ psi_2e u < length s2)%nat ->
  py_distance ced idist f1 (Z.of_nat (length s1)) f2 (Z.of_nat (length s2)) false Inf mld mld_some (adj_max_step u) (Fin (adj_penalty u))
              (Z.of_nat (psi_1b u)) (Z.of_nat (psi_1e u)) (Z.of_nat (psi_2b u)) (Z.of_nat (psi_2e u))
              (eff_window u (length s1) (length s2)) =
  ((if mld_some && cltb mld (Fin (Z.abs (Z.of_nat (length s1) - Z.of_nat (length s2)))) then RPlain Inf
    else RSqrt (dtw_value u s1 s2)), true).
Proof. exact py_distance_spec_unbounded. Qed.
