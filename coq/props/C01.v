(* C01 -- the DTW distance (model: DtwSpec.dtw_model, tied to dtw.distance by the
   correspondence check and to the regenerated band/buffer expressions by BandTie)
   is the optimum over admissible warping paths. *)
From Coq Require Import ZArith List.
From DV Require Import Cost Grid Dtw DtwSpec.

Theorem C01_lower_bound : forall u s1 s2 ij p v,
  In ij (end_cands u s1 s2) ->
  wpath_cost u s1 s2 (fst ij) (snd ij) p = Some v ->
  cle (dtw_value u s1 s2) v.
Proof. exact dtw_value_lower. Qed.

Theorem C01_attained : forall u s1 s2,
  dtw_value u s1 s2 = Inf \/
  exists ij p, In ij (end_cands u s1 s2) /\
               wpath_cost u s1 s2 (fst ij) (snd ij) p = Some (dtw_value u s1 s2).
Proof. exact dtw_value_attained. Qed.
