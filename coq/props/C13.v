(* C13 -- the matching function of the subsequence alignment.  With
   psi = (0,0,len(series),len(series)) the last row of the accumulated-cost matrix
   at end column e+1 (i) is a lower bound of the penalised DTW cost of the query
   against series[b..e] for every start b (shift lemma), and (ii) is the cost of
   some warping path that starts at the top border, i.e. at some start column
   (cell-wise optimality, C04).  Hence it is the best DTW over all start points.
   The k-best iterator's properties are checked on the implementation (partial). *)
From Coq Require Import ZArith List Lia.
From DV Require Import Cost Grid Dtw DtwSpec DtwProps Subseq.

Theorem C13_matching_is_lower_bound_for_every_start : forall d pen c b i j,
  (b + j <= c)%nat -> cle (full d pen c i (b + j)) (seg d pen b i j).
Proof. exact full_le_segment. Qed.

Theorem C13_matching_attained_by_a_path : forall d pen c i j,
  exists p, path_cost d pen 0 c i j p = Some (full d pen c i j) /\ (length p <= i + j)%nat.
Proof. intros. apply Mf_attained. Qed.

Theorem C13_matching_le_every_path : forall d pen c i j p v,
  path_cost d pen 0 c i j p = Some v -> cle (full d pen c i j) v.
Proof. intros d pen c i j p v. apply Mf_lower. Qed.
