(* C13 -- the matching function of the subsequence alignment.  With
   psi = (0,0,len(series),len(series)) the last row of the accumulated-cost matrix
   at end column e+1 (i) is a lower bound of the penalised DTW cost of the query
   against series[b..e] for every start b (shift lemma), and (ii) is the cost of
   some warping path that starts at the top border, i.e. at some start column
   (cell-wise optimality, C04).  Hence it is the best DTW over all start points.
   The k-best iterator's properties are checked on the implementation (partial). *)
From Coq Require Import ZArith List Lia.
From DV Require Import Cost Grid Dtw DtwSpec DtwProps Subseq.

Theorem C13_matching_is_lower_bound_for_every_start : forall d pen c b i j,
  (b + j <= c)%nat -> cle (full d pen c i (b + j)) (seg d pen b i j).
Proof. exact full_le_segment. Qed.

Theorem C13_matching_attained_by_a_path : forall d pen c i j,
  exists p, path_cost d pen 0 c i j p = Some (full d pen c i j) /\ (length p <= i + j)%nat.
Proof. intros. apply Mf_attained. Qed.

Theorem C13_matching_le_every_path : forall d pen c i j p v,
  path_cost d pen 0 c i j p = Some v -> cle (full d pen c i j) v.
Proof. intros d pen c i j p v. apply Mf_lower. Qed.

(* The k-best iterator (_best_matches) as a state machine over the copied matching function (KBest.v): for every
   matching function, every segment function with begin <= end and every k / overlap / minlength / maxlength the
   yielded matches have non-decreasing values, distinct end points, lengths within the limits and pairwise
   disjoint masked ranges; with overlap = 0 two matches (of length >= 2) share at most one boundary sample;
   every iteration retires a live entry (termination). *)
From DV Require Import KBest.

Theorem C13_kbest_iterator : forall beg, (forall e, beg e <= e)%nat ->
  forall overlap minlength maxlength maxinf k m,
  let ys := kbest beg overlap minlength maxlength maxinf k m in
  sorted_vals ys /\ pairwise (fun y y' => yend y <> yend y') ys /\ pairwise (masked_disjoint beg overlap) ys /\
  (forall y, In y ys -> ybeg y = beg (yend y) /\ (yend y < length m)%nat /\
                        (minlength <= yend y - ybeg y + 1)%nat /\
                        (forall mx, maxlength = Some mx -> (yend y - ybeg y + 1 <= mx)%nat)) /\
  (forall n, k = Some n -> (length ys <= n)%nat).
Proof. intros. apply kbest_spec. assumption. Qed.

Theorem C13_no_overlap_one_shared_sample : forall beg, (forall e, beg e <= e)%nat -> forall y y',
  masked_disjoint beg 0 y y' -> (beg (yend y) < yend y)%nat -> (beg (yend y') < yend y')%nat ->
  forall p q, (beg (yend y) <= p <= yend y)%nat -> (beg (yend y') <= p <= yend y')%nat ->
              (beg (yend y) <= q <= yend y)%nat -> (beg (yend y') <= q <= yend y')%nat -> p = q.
Proof. exact no_overlap_share_one_sample. Qed.

Theorem C13_kbest_terminates : forall beg, (forall e, beg e <= e)%nat -> forall overlap minlength maxlength maxinf m,
  match iter beg overlap minlength maxlength maxinf m with
  | Stop => True
  | Skip m' => (live m' < live m)%nat
  | Yield m' _ _ _ => (live m' < live m)%nat
  end.
Proof. exact iter_retires. Qed.
