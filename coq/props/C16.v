(* C16 -- the final assignment of DBA k-means: nearest mean (first minimum),
   clusters are a partition keyed 0..k-1, iteration counter <= max_it + 1.
   Everything random (seeding, re-seeding of empty clusters, outlier dropping)
   only influences WHICH means are used; the theorems hold for any means.
   Partial: that fit reaches its final step without raising is correspondence. *)
From Coq Require Import ZArith List.
From DV Require Import Cost Kmeans.

Theorem C16_assigned_mean_is_nearest : forall ds c, assign ds = Some c ->
  (c < length ds)%nat /\ forall k, (k < length ds)%nat -> cle (nth c ds Inf) (nth k ds Inf).
Proof. exact assign_nearest. Qed.

Theorem C16_unassigned_only_if_all_infinite : forall ds, assign ds = None ->
  forall k, (k < length ds)%nat -> nth k ds Inf = Inf.
Proof. exact assign_none. Qed.

Theorem C16_clusters_partition : forall dists n K idx, (idx < n)%nat -> (forall i, length (dists i) = K) ->
  assign (dists idx) <> None ->
  exists c, (c < K)%nat /\ In idx (cluster dists n c) /\ forall c', In idx (cluster dists n c') -> c' = c.
Proof. exact clusters_partition. Qed.

Theorem C16_iterations_bounded : forall stops, (performed stops 1 <= length stops + 1)%nat.
Proof. exact performed_bound. Qed.
