(* C09 -- LB_Keogh <= DTW <= Euclidean distance, on the models tied to the code:
   lb_keogh_model uses the index arithmetic regenerated from dtw.lb_keogh. *)
From Coq Require Import ZArith List.
From DV Require Import Cost Dtw DtwSpec DtwProps Bounds.

Theorem C09_lb_keogh_le_dtw : forall u s1 s2,
  pen_ok u -> u_psi u = ((0%nat, 0%nat), (0%nat, 0%nat)) ->
  cle (Fin (lb_keogh_model (u_inner u) (u_window u) s1 s2)) (dtw_value u (scal s1) (scal s2)).
Proof. exact lb_keogh_le_dtw. Qed.

Theorem C09_dtw_le_euclidean : forall u s1 s2,
  (1 <= eff_window u (length s1) (length s2))%Z -> adj_max_step u = Inf ->
  (1 <= length s1)%nat -> (1 <= length s2)%nat ->
  (adj_penalty u = 0%Z \/ length s1 = length s2) ->
  cle (dtw_value u s1 s2) (Fin (ed_model (u_inner u) s1 s2)).
Proof. exact dtw_le_ed. Qed.

(* The C LB_Keogh routines use the same envelope: their bounds, regenerated from dd_dtw.c, equal the ones
   regenerated from dtw.lb_keogh on which lb_keogh_model (and C09_lb_keogh_le_dtw) is built. *)
From DV Require Import CLb.
From DVGen Require Import Gen_dtw Gen_clb.

Theorem C09_c_envelope_is_python_envelope : forall l1 l2 window i,
  (c_lb_keogh_imin i (c_lb_keogh_imin_diff l1 l2 window) = py_lb_imin i (py_lb_imin_diff l1 l2 window) /\
   c_lb_keogh_imax i (c_lb_keogh_imax_diff l1 l2 window) l2 = py_lb_imax l2 i (py_lb_imax_diff l1 l2 window)) /\
  (c_lb_keogh_euclidean_imin i (c_lb_keogh_euclidean_imin_diff l1 l2 window) = py_lb_imin i (py_lb_imin_diff l1 l2 window) /\
   c_lb_keogh_euclidean_imax i (c_lb_keogh_euclidean_imax_diff l1 l2 window) l2 = py_lb_imax l2 i (py_lb_imax_diff l1 l2 window)).
Proof.
  intros. destruct (c_lb_keogh_envelope l1 l2 window i) as (_ & _ & A & B).
  destruct (c_lb_keogh_euclidean_envelope l1 l2 window i) as (_ & _ & C & D). repeat split; assumption.
Qed.

(* THE C ROUTINES AS WRITTEN.  Gen_ced.v holds euclidean_distance_squared / _euclidean / _ndim_squared /
   _ndim_euclidean of dd_ed.c (and the sqrt / ub_euclidean* wrappers) translated WHOLE by tools/cfun.py.  For all
   series they return the model of ed.distance - the upper bound of C09_dtw_le_euclidean - with every access in range:
   the prefix pairwise, the surplus elements of the longer series against the LAST element of the shorter one. *)
From DV Require Import CLang CEd.
From DVGen Require Import Gen_ced.
Import ListNotations.

Theorem C09_c_euclidean_distance_squared_as_written : forall f1 f2 : list Z, (1 <= length f1)%nat -> (1 <= length f2)%nat ->
  c_euclidean_distance_squared f1 (Z.of_nat (length f1)) f2 (Z.of_nat (length f2)) =
  (RPlain (Fin (ed_model SqEuclid (scal f1) (scal f2))), true).
Proof. exact c_euclidean_distance_squared_spec. Qed.

Theorem C09_c_euclidean_distance_euclidean_as_written : forall f1 f2 : list Z, (1 <= length f1)%nat -> (1 <= length f2)%nat ->
  c_euclidean_distance_euclidean f1 (Z.of_nat (length f1)) f2 (Z.of_nat (length f2)) =
  (RPlain (Fin (ed_model AbsDiff (scal f1) (scal f2))), true).
Proof. exact c_euclidean_distance_euclidean_spec. Qed.

Theorem C09_c_euclidean_distance_ndim_squared_as_written : forall (s1 s2 : list point) (d : nat),
  (forall p, In p s1 -> length p = d) -> (forall p, In p s2 -> length p = d) -> (1 <= length s1)%nat -> (1 <= length s2)%nat ->
  c_euclidean_distance_ndim_squared (concat s1) (Z.of_nat (length s1)) (concat s2) (Z.of_nat (length s2)) (Z.of_nat d) =
  (RPlain (Fin (ed_model SqEuclid s1 s2)), true).
Proof. exact c_euclidean_distance_ndim_squared_spec. Qed.

Theorem C09_c_euclidean_distance_ndim_euclidean_as_written : forall (s1 s2 : list point) (d : nat),
  (forall p, In p s1 -> length p = d) -> (forall p, In p s2 -> length p = d) -> (1 <= length s1)%nat -> (1 <= length s2)%nat ->
  c_euclidean_distance_ndim_euclidean (concat s1) (Z.of_nat (length s1)) (concat s2) (Z.of_nat (length s2)) (Z.of_nat d) =
  (RPlain (Fin (ed_model AbsDiff s1 s2)), true).
Proof. exact c_euclidean_distance_ndim_euclidean_spec. Qed.

(* unequal lengths, all-negative data: [-1;-2;-3] vs [-2]: 1 + 0 + 1 *)
Example C09_c_ed_nonvacuous :
  c_euclidean_distance_squared [-1; -2; -3]%Z 3 [-2]%Z 1 = (RPlain (Fin 2), true).
Proof. vm_compute. reflexivity. Qed.
