(* C09 -- LB_Keogh <= DTW <= Euclidean distance, on the models tied to the code:
   lb_keogh_model uses the index arithmetic regenerated from dtw.lb_keogh. *)
From Coq Require Import ZArith List.
From DV Require Import Cost Dtw DtwSpec DtwProps Bounds.

Theorem C09_lb_keogh_le_dtw : forall u s1 s2,
  pen_ok u -> u_psi u = ((0%nat, 0%nat), (0%nat, 0%nat)) ->
  cle (Fin (lb_keogh_model (u_inner u) (u_window u) s1 s2)) (dtw_value u (scal s1) (scal s2)).
Proof. exact lb_keogh_le_dtw. Qed.

Theorem C09_dtw_le_euclidean : forall u s1 s2,
  (1 <= eff_window u (length s1) (length s2))%Z -> adj_max_step u = Inf ->
  (1 <= length s1)%nat -> (1 <= length s2)%nat ->
  (adj_penalty u = 0%Z \/ length s1 = length s2) ->
  cle (dtw_value u s1 s2) (Fin (ed_model (u_inner u) s1 s2)).
Proof. exact dtw_le_ed. Qed.

(* The C LB_Keogh routines use the same envelope: their bounds, regenerated from dd_dtw.c, equal the ones
   regenerated from dtw.lb_keogh on which lb_keogh_model (and C09_lb_keogh_le_dtw) is built. *)
From DV Require Import CLb.
From DVGen Require Import Gen_dtw Gen_clb.

Theorem C09_c_envelope_is_python_envelope : forall l1 l2 window i,
  (c_lb_keogh_imin i (c_lb_keogh_imin_diff l1 l2 window) = py_lb_imin i (py_lb_imin_diff l1 l2 window) /\
   c_lb_keogh_imax i (c_lb_keogh_imax_diff l1 l2 window) l2 = py_lb_imax l2 i (py_lb_imax_diff l1 l2 window)) /\
  (c_lb_keogh_euclidean_imin i (c_lb_keogh_euclidean_imin_diff l1 l2 window) = py_lb_imin i (py_lb_imin_diff l1 l2 window) /\
   c_lb_keogh_euclidean_imax i (c_lb_keogh_euclidean_imax_diff l1 l2 window) l2 = py_lb_imax l2 i (py_lb_imax_diff l1 l2 window)).
Proof.
  intros. destruct (c_lb_keogh_envelope l1 l2 window i) as (_ & _ & A & B).
  destruct (c_lb_keogh_euclidean_envelope l1 l2 window i) as (_ & _ & C & D). repeat split; assumption.
Qed.
