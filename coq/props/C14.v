(* C14 -- k-NN subsequence search is exact: the heap-with-running-bound search
   (lower-bound skipping and early abandoning included) returns exactly the k
   smallest eligible distances; lower bounds never change the answer; a cached
   larger answer restricted to k equals the answer for k. *)
From Coq Require Import ZArith List.
From DV Require Import Cost Search.

Theorem C14_search_exact : forall k use_lb maxd0 cands, (0 < k)%nat ->
  (forall c, In c cands -> (fst c <= snd c)%Z) ->
  search k use_lb maxd0 cands = spec k maxd0 cands.
Proof. exact search_exact. Qed.

Theorem C14_lower_bounds_irrelevant : forall k maxd0 cands, (0 < k)%nat ->
  (forall c, In c cands -> (fst c <= snd c)%Z) ->
  search k true maxd0 cands = search k false maxd0 cands.
Proof. exact search_lb_irrelevant. Qed.

Theorem C14_cache_prefix : forall k K maxd0 cands, (k <= K)%nat ->
  firstn k (spec K maxd0 cands) = spec k maxd0 cands.
Proof. exact cached_prefix. Qed.
