(* C08 (partial) -- index arithmetic of the C rolling buffer, over expressions
   regenerated from dd_dtw.c: psi prologue and last-row psi scan are inside the
   allocation for every length / window / psi; the four template instances agree.
   Everything else about memory safety (uninitialised reads, the compact warping
   paths layout, best_path, DBA, the Cython glue) is covered by the
   AddressSanitizer/UBSan correspondence runs only. *)
From Coq Require Import ZArith.
From DV Require Import Mem BandTie.
From DVGen Require Import Gen_cmem.

Theorem C08_psi_prologue_in_allocation : forall l2 ldiff window psi_2b i,
  (1 <= window -> 0 <= l2 -> 0 <= ldiff ->
  0 <= i < c_dtw_distance_psi2b_bound (c_dtw_distance_length l2 ldiff window) psi_2b ->
  0 <= i < c_dtw_distance_alloc (c_dtw_distance_length l2 ldiff window))%Z.
Proof. exact prologue_in_alloc. Qed.

Theorem C08_psi_scan_in_row : forall l1 l2 window psi_2e i,
  (1 <= window -> 1 <= l1 -> 1 <= l2 -> 0 <= psi_2e ->
  c_dtw_distance_psi2e_start l2 psi_2e (c_skip_last l1 l2 window) <= i <
    c_dtw_distance_psi2e_end l2 (c_skip_last l1 l2 window) ->
  0 <= i < c_dtw_distance_length l2 (Z.abs (l1 - l2)) window)%Z.
Proof. exact scan_in_row. Qed.

Theorem C08_band_write_in_buffer : forall r c w i j,
  (1 <= w -> 1 <= r -> 1 <= c -> 0 <= i < r ->
  Dtw.band_lo r c w i <= j < Dtw.band_hi r c w i ->
  0 <= j + 1 - eff_skip r c w i < Gen_dtw.py_dist_length r c w)%Z.
Proof. exact dist_write_in_buffer. Qed.
