(* C08 (partial) -- index arithmetic of the C rolling buffer, over expressions
   regenerated from dd_dtw.c: psi prologue and last-row psi scan are inside the
   allocation for every length / window / psi; the four template instances agree.
   Everything else about memory safety (uninitialised reads, the compact warping
   paths layout, best_path, DBA, the Cython glue) is covered by the
   AddressSanitizer/UBSan correspondence runs only. *)
From Coq Require Import ZArith.
From DV Require Import Mem BandTie.
From DVGen Require Import Gen_cmem.

Theorem C08_psi_prologue_in_allocation : forall l2 ldiff window psi_2b i,
  (1 <= window -> 0 <= l2 -> 0 <= ldiff ->
  0 <= i < c_dtw_distance_psi2b_bound (c_dtw_distance_length l2 ldiff window) psi_2b ->
  0 <= i < c_dtw_distance_alloc (c_dtw_distance_length l2 ldiff window))%Z.
Proof. exact prologue_in_alloc. Qed.

Theorem C08_psi_scan_in_row : forall l1 l2 window psi_2e i,
  (1 <= window -> 1 <= l1 -> 1 <= l2 -> 0 <= psi_2e ->
  c_dtw_distance_psi2e_start l2 psi_2e (c_skip_last l1 l2 window) <= i <
    c_dtw_distance_psi2e_end l2 (c_skip_last l1 l2 window) ->
  0 <= i < c_dtw_distance_length l2 (Z.abs (l1 - l2)) window)%Z.
Proof. exact scan_in_row. Qed.

Theorem C08_band_write_in_buffer : forall r c w i j,
  (1 <= w -> 1 <= r -> 1 <= c -> 0 <= i < r ->
  Dtw.band_lo r c w i <= j < Dtw.band_hi r c w i ->
  0 <= j + 1 - eff_skip r c w i < Gen_dtw.py_dist_length r c w)%Z.
Proof. exact dist_write_in_buffer. Qed.

(* The row loop of the four C kernels, over band / offset / length regenerated from dd_dtw.c: the write
   dtw[i1*length + j+1-skip] and the three reads of a band cell stay inside one row of the 2*length buffer. *)
From DV Require Import CBand.

Theorem C08_c_row_loop_accesses_in_buffer :
  forall l1 l2 window i j, (1 <= window)%Z -> (1 <= l1)%Z -> (1 <= l2)%Z -> (0 <= i < l1)%Z ->
  let maxj := cv_maxj c_dtw_distance_ldiff c_dtw_distance_dl c_dtw_distance_dl_window c_dtw_distance_maxj in
  let minj := cv_minj c_dtw_distance_ldiff c_dtw_distance_ldiff_window c_dtw_distance_minj in
  let skip := cv_skip c_dtw_distance_ldiff c_dtw_distance_dl c_dtw_distance_dl_window c_dtw_distance_maxj
                      c_dtw_distance_skip c_dtw_distance_length in
  let length := cv_length c_dtw_distance_ldiff c_dtw_distance_length in
  (maxj l1 l2 window i <= j < minj l1 l2 window i ->
   0 <= j - skip l1 l2 window i /\ j + 1 - skip l1 l2 window i < length l1 l2 window /\
   (1 <= i -> 0 <= j - skip l1 l2 window (i - 1) /\ j + 1 - skip l1 l2 window (i - 1) < length l1 l2 window))%Z.
Proof.
  intros l1 l2 window i j Hw H1 H2 Hi. cbv zeta. intros Hj.
  apply (c_row_accesses_in_buffer _ _ _ _ c_band_dtw_distance l1 l2 window i j); assumption.
Qed.

(* The compact warping-paths layout (dtw_wps_parts, dtw_wps_shift regenerated from dd_dtw.c): the slot of every band
   cell -- and of its left neighbour -- lies inside its row of width `width`, for every length and window; consecutive
   rows are shifted by 0 or 1; rows above the left overlap are not shifted. *)
From DV Require Import CWps.

Theorem C08_compact_slot_in_row : forall l1 l2 window0 ri j,
  (1 <= l1 -> 1 <= l2 -> 0 <= window0 -> 0 <= ri < l1 ->
   Dtw.band_lo l1 l2 (cw_window l1 l2 window0) ri <= j < Dtw.band_hi l1 l2 (cw_window l1 l2 window0) ri ->
   0 <= j - cw_shift l1 l2 window0 ri /\ j + 1 - cw_shift l1 l2 window0 ri < cw_width l1 l2 window0)%Z.
Proof. exact compact_slot_in_row. Qed.

Theorem C08_compact_shift_steps : forall l1 l2 window0 ri,
  (1 <= l1 -> 1 <= l2 -> 0 <= window0 -> 0 <= ri -> ri + 1 < l1 ->
   cw_shift l1 l2 window0 (ri + 1) = cw_shift l1 l2 window0 ri \/
   cw_shift l1 l2 window0 (ri + 1) = cw_shift l1 l2 window0 ri + 1)%Z.
Proof. exact compact_shift_steps. Qed.

(* The loops that FILL the compact array (four kernels x four row regions, regenerated into Gen_cfill.v): the cell loop of
   every region runs over exactly the band of its row, writes column ci to the layout slot ci + 1 - shift(ri), reads the
   previous row at the slots of columns ci - 1 and ci under THAT row's shift, and all of these indices -- and the head
   fill of region D -- lie inside their rows, for every length, window and row.  The skip loops before the cell loop are
   bounded by the pruning column (only ever 0 or ci + 1 of an earlier cell loop, whose bound never decreases) or by
   min(ri, bound of the cell loop). *)
From Coq Require Import List String.
From DV Require Import CFill.
From DVGen Require Import Gen_cfill.

Theorem C08_fill_loops_follow_the_layout : forall l1 l2 window0, (1 <= l1)%Z -> (1 <= l2)%Z -> (0 <= window0)%Z ->
  forall r, In r fill_regions -> region_ok l1 l2 window0 r.
Proof. exact fill_regions_follow_the_layout. Qed.

Theorem C08_fill_skip_loops_bounded :
  (forall r, In r fill_regions -> fr_skip r = "sc"%string \/ fr_skip r = "ri&bound"%string) /\
  (forall k l x, In (k, l) sc_assignments -> In x l -> x = "0"%string \/ x = "ci+1"%string) /\
  (forall l1 l2 w ri, (0 <= ri)%Z -> (Dtw.band_hi l1 l2 w ri <= Dtw.band_hi l1 l2 w (ri + 1))%Z).
Proof.
  split; [exact skip_loops_are_bounded|]. split; [exact sc_is_zero_or_the_next_column|exact cell_loop_bound_monotone].
Qed.

Theorem C08_fill_skip_in_row : forall l1 l2 window0, (1 <= l1)%Z -> (1 <= l2)%Z -> (0 <= window0)%Z ->
  forall r, In r fill_regions -> forall ri S ci,
  (region_lo l1 l2 window0 (fr_region r) <= ri < region_hi l1 l2 window0 (fr_region r))%Z -> (0 <= ri < l1)%Z ->
  (S <= row_hi l1 l2 window0 r ri)%Z -> (row_min l1 l2 window0 r ri <= ci < S)%Z ->
  (0 < slot l1 l2 window0 r ri ci < width l1 l2 window0)%Z.
Proof. exact skip_in_row. Qed.

(* The loops that EXPAND the compact array into a full matrix or a slice of it (dtw_expand_wps_slice and its affinity twin;
   dtw_expand_wps* call them with the whole matrix): every cell is read at its layout slot, inside its row of the compact
   array, and written inside the (re-rb) x (ce-cb) output block, for every length, window and slice. *)
From DV Require Import CExpand.
From DVGen Require Import Gen_cexpand.

Theorem C08_expand_loops_follow_the_layout : forall l1 l2 window0 rb re cb ce,
  (1 <= l1)%Z -> (1 <= l2)%Z -> (0 <= window0)%Z -> (0 <= rb < re)%Z -> (re <= l1 + 1)%Z -> (0 <= cb < ce)%Z -> (ce <= l2 + 1)%Z ->
  forall r, In r expand_regions -> expand_ok l1 l2 window0 rb re cb ce r.
Proof. exact expand_regions_follow_the_layout. Qed.

Theorem C08_expand_write_index_in_block : forall l1 l2 window0 rb re cb ce,
  (1 <= l1)%Z -> (1 <= l2)%Z -> (0 <= window0)%Z -> (0 <= rb < re)%Z -> (re <= l1 + 1)%Z -> (0 <= cb < ce)%Z -> (ce <= l2 + 1)%Z ->
  forall r, In r expand_regions -> forall ri ci,
  (first_row l1 l2 window0 rb r <= ri < last_row l1 l2 window0 re r)%Z ->
  (Z.max (cbs cb) (e_min l1 l2 window0 rb ce r ri) <= ci < Z.min (ces ce) (e_hi l1 l2 window0 rb ce r ri))%Z ->
  (0 <= (ri + 1 - rb) * (ce - cb) + (ci + 1 - cb) < (re - rb) * (ce - cb))%Z.
Proof. exact expand_write_index_in_block. Qed.

(* dtw_wps_loc / dtw_wps_loc_columns (index of a cell / of the first stored column of a row: used by
   dtw_best_path_customstart, dtw_wps_negativize / positivize, the relaxed-end search): for every row and every column the
   routines enumerate for it, the returned slot is the layout slot c - shift(r - 1), inside the row. *)
From DV Require Import CLoc.
From DVGen Require Import Gen_cloc.

Theorem C08_wps_loc_returns_the_layout_slot : forall l1 l2 window0, (1 <= l1)%Z -> (1 <= l2)%Z -> (0 <= window0)%Z ->
  forall r, In r loc_regions -> loc_ok l1 l2 window0 r.
Proof. exact loc_regions_follow_the_layout. Qed.

(* THE DISTANCE KERNELS AS WRITTEN (Gen_cdist.v: the four dtw_distance* functions regenerated whole by tools/cfun.py,
   which adds a conjunct `0 <= index < size` to the flag `ok` for EVERY read and write of the malloc'ed two-row buffer
   and of the two input series): ok = true at the end, for all series, windows, psi values, thresholds, pruning on/off,
   only_ub on/off and any content of the freshly allocated buffer. *)
From DV Require Import CLang CDistSpec.
From DVGen Require Import Gen_cdist.

Theorem C08_c_dtw_distance_accesses_in_bounds :
  forall (window p m mld : Z) (p1b p1e p2b p2e : nat) (junk : Z -> Cost.cost), (0 <= window)%Z ->
  forall (f1 f2 : list Z) ce ced cub idist md oub prune, (1 <= List.length f1)%nat -> (1 <= List.length f2)%nat ->
  snd (c_dtw_distance ce ced cub junk f1 (Z.of_nat (List.length f1)) f2 (Z.of_nat (List.length f2)) idist md mld (Cost.Fin m) oub (Cost.Fin p)
                      (Z.of_nat p1b) (Z.of_nat p1e) (Z.of_nat p2b) (Z.of_nat p2e) prune window) = true.
Proof. exact c_dtw_distance_in_bounds. Qed.

Theorem C08_c_dtw_distance_euclidean_accesses_in_bounds :
  forall (window p m mld : Z) (p1b p1e p2b p2e : nat) (junk : Z -> Cost.cost), (0 <= window)%Z ->
  forall (f1 f2 : list Z) cub md oub prune, (1 <= List.length f1)%nat -> (1 <= List.length f2)%nat ->
  snd (c_dtw_distance_euclidean cub junk f1 (Z.of_nat (List.length f1)) f2 (Z.of_nat (List.length f2)) md mld (Cost.Fin m) oub (Cost.Fin p)
                      (Z.of_nat p1b) (Z.of_nat p1e) (Z.of_nat p2b) (Z.of_nat p2e) prune window) = true.
Proof. exact c_dtw_distance_euclidean_in_bounds. Qed.

Theorem C08_c_dtw_distance_ndim_accesses_in_bounds :
  forall (window p m mld : Z) (p1b p1e p2b p2e : nat) (junk : Z -> Cost.cost), (0 <= window)%Z ->
  forall (s1 s2 : list Dtw.point) (d : nat) ce ced cub idist md oub prune,
  (forall q, In q s1 -> List.length q = d) -> (forall q, In q s2 -> List.length q = d) -> (1 <= List.length s1)%nat -> (1 <= List.length s2)%nat ->
  snd (c_dtw_distance_ndim ce ced cub junk (List.concat s1) (Z.of_nat (List.length s1)) (List.concat s2) (Z.of_nat (List.length s2)) (Z.of_nat d)
                      idist md mld (Cost.Fin m) oub (Cost.Fin p) (Z.of_nat p1b) (Z.of_nat p1e) (Z.of_nat p2b) (Z.of_nat p2e) prune window) = true.
Proof. exact c_dtw_distance_ndim_in_bounds. Qed.

Theorem C08_c_dtw_distance_ndim_euclidean_accesses_in_bounds :
  forall (window p m mld : Z) (p1b p1e p2b p2e : nat) (junk : Z -> Cost.cost), (0 <= window)%Z ->
  forall (s1 s2 : list Dtw.point) (d : nat) cub md oub prune,
  (forall q, In q s1 -> List.length q = d) -> (forall q, In q s2 -> List.length q = d) -> (1 <= List.length s1)%nat -> (1 <= List.length s2)%nat ->
  snd (c_dtw_distance_ndim_euclidean cub junk (List.concat s1) (Z.of_nat (List.length s1)) (List.concat s2) (Z.of_nat (List.length s2)) (Z.of_nat d)
                      md mld (Cost.Fin m) oub (Cost.Fin p) (Z.of_nat p1b) (Z.of_nat p1e) (Z.of_nat p2b) (Z.of_nat p2e) prune window) = true.
Proof. exact c_dtw_distance_ndim_euclidean_in_bounds. Qed.

(* THE WARPING-PATHS KERNEL AS WRITTEN (Gen_cwpsk.v: dtw_warping_paths_ndim regenerated whole, one conjunct
   `0 <= index < size` in the flag for every read and write of the compact array and of the two series): run without a
   bound on ANY buffer of (l1+1) * width cells, the flag is true at the end -- no access of the four row regions, of the
   skip/fill loops or of the coordinate loop leaves its array -- and the array still has (l1+1) * width cells. *)
From DV Require Import Engines Dtw CWps CWpsFinal.
From DVGen Require Import Gen_cwps Gen_cwpsk.

Theorem C08_c_wps_kernel_accesses_in_bounds :
  forall (window p m mld : Z) (psi : (nat * nat) * (nat * nat)), (0 <= window)%Z ->
  let usq := c_to_u (cs_of window p m mld psi SqEuclid) in
  forall (s1 s2 : list Dtw.point) (d : nat),
  (forall q, In q s1 -> List.length q = d) -> (forall q, In q s2 -> List.length q = d) ->
  (1 <= List.length s1)%nat -> (1 <= List.length s2)%nat ->
  (psi_1b usq <= List.length s1)%nat -> (psi_2b usq <= List.length s2)%nat ->
  forall ce shiftf ced1 ced2 (wps0 : list Cost.cost) psi_neg idist zp1e zp2e,
  let l1 := Z.of_nat (List.length s1) in let l2 := Z.of_nat (List.length s2) in
  let W := cw_width l1 l2 window in
  Z.of_nat (List.length wps0) = ((l1 + 1) * W)%Z -> (idist =? 1)%Z = false ->
  let res := c_dtw_warping_paths_ndim ce shiftf ced1 ced2 wps0 (List.concat s1) l1 (List.concat s2) l2 false true psi_neg (Z.of_nat d)
      ((l1 + 1) * W)%Z (c_parts_ldiff l1 l2) (c_parts_ldiffr l1 l2 (c_parts_ldiff l1 l2))
      (c_parts_ldiffc l1 l2 (c_parts_ldiff l1 l2)) (c_parts_window l1 l2 window) W ((l1 + 1) * W)%Z
      (c_parts_ri1 l1 (c_parts_overlap_left l1 (c_parts_ldiffr l1 l2 (c_parts_ldiff l1 l2)) (c_parts_window l1 l2 window))
                      (c_parts_overlap_right l1 (c_parts_ldiffr l1 l2 (c_parts_ldiff l1 l2)) (c_parts_window l1 l2 window)))
      (c_parts_ri2 l1 (c_parts_overlap_left l1 (c_parts_ldiffr l1 l2 (c_parts_ldiff l1 l2)) (c_parts_window l1 l2 window)))
      (c_parts_ri3 l1 (c_parts_overlap_left l1 (c_parts_ldiffr l1 l2 (c_parts_ldiff l1 l2)) (c_parts_window l1 l2 window))
                      (c_parts_overlap_right l1 (c_parts_ldiffr l1 l2 (c_parts_ldiff l1 l2)) (c_parts_window l1 l2 window)))
      (adj_max_step usq) Cost.Inf (Cost.Fin (adj_penalty usq)) idist false (Z.of_nat (psi_1b usq)) zp1e (Z.of_nat (psi_2b usq)) zp2e false in
  snd res = true /\ Z.of_nat (List.length (snd (fst res))) = ((l1 + 1) * W)%Z.
Proof.
  intros window p m mld psi Hw usq s1 s2 d Hd1 Hd2 H1 H2 Hp1 Hp2 ce shiftf ced1 ced2 wps0 psi_neg idist zp1e zp2e l1 l2 W HL Hid res.
  destruct (c_wps_kernel_stores_spec_matrix window p m mld psi Hw s1 s2 d Hd1 Hd2 H1 H2 Hp1 Hp2
              ce shiftf ced1 ced2 wps0 psi_neg idist zp1e zp2e HL Hid) as (wps' & E & HLen & _).
  subst res l1 l2 W usq. rewrite E. cbn [fst snd]. split; [reflexivity|exact HLen].
Qed.

(* dtw_expand_wps_slice AS WRITTEN (Gen_cexpw.v, regenerated whole; dtw_expand_wps passes the whole matrix): on the array
   the kernel leaves, for EVERY slice and any content of the caller's block, the flag collecting `0 <= index < size`
   for every read of the compact array and every write of the (re-rb) x (ce-cb) block is true, and the block keeps
   its size. *)
From DV Require Import CExpW.
From DVGen Require Import Gen_cexpw.

Theorem C08_c_expand_accesses_in_bounds :
  forall (window p m mld : Z) (psi : (nat * nat) * (nat * nat)), (0 <= window)%Z ->
  let usq := c_to_u (cs_of window p m mld psi SqEuclid) in
  forall (s1 s2 : list Dtw.point) (d : nat),
  (forall q, In q s1 -> List.length q = d) -> (forall q, In q s2 -> List.length q = d) ->
  (1 <= List.length s1)%nat -> (1 <= List.length s2)%nat ->
  (psi_1b usq <= List.length s1)%nat -> (psi_2b usq <= List.length s2)%nat ->
  forall ce0 shiftf ced1 ced2 (wps0 : list Cost.cost) psi_neg idist zp1e zp2e (rb re cb ce : Z) (full0 : list Cost.cost),
  let l1 := Z.of_nat (List.length s1) in let l2 := Z.of_nat (List.length s2) in
  let W := cw_width l1 l2 window in
  Z.of_nat (List.length wps0) = ((l1 + 1) * W)%Z -> (idist =? 1)%Z = false ->
  (0 <= rb < re)%Z -> (re <= l1 + 1)%Z -> (0 <= cb < ce)%Z -> (ce <= l2 + 1)%Z ->
  Z.of_nat (List.length full0) = ((re - rb) * (ce - cb))%Z ->
  let wps' := snd (fst (c_dtw_warping_paths_ndim ce0 shiftf ced1 ced2 wps0 (List.concat s1) l1 (List.concat s2) l2 false true psi_neg (Z.of_nat d)
      ((l1 + 1) * W)%Z (c_parts_ldiff l1 l2) (c_parts_ldiffr l1 l2 (c_parts_ldiff l1 l2))
      (c_parts_ldiffc l1 l2 (c_parts_ldiff l1 l2)) (c_parts_window l1 l2 window) W ((l1 + 1) * W)%Z
      (c_parts_ri1 l1 (c_parts_overlap_left l1 (c_parts_ldiffr l1 l2 (c_parts_ldiff l1 l2)) (c_parts_window l1 l2 window))
                      (c_parts_overlap_right l1 (c_parts_ldiffr l1 l2 (c_parts_ldiff l1 l2)) (c_parts_window l1 l2 window)))
      (c_parts_ri2 l1 (c_parts_overlap_left l1 (c_parts_ldiffr l1 l2 (c_parts_ldiff l1 l2)) (c_parts_window l1 l2 window)))
      (c_parts_ri3 l1 (c_parts_overlap_left l1 (c_parts_ldiffr l1 l2 (c_parts_ldiff l1 l2)) (c_parts_window l1 l2 window))
                      (c_parts_overlap_right l1 (c_parts_ldiffr l1 l2 (c_parts_ldiff l1 l2)) (c_parts_window l1 l2 window)))
      (adj_max_step usq) Cost.Inf (Cost.Fin (adj_penalty usq)) idist false (Z.of_nat (psi_1b usq)) zp1e (Z.of_nat (psi_2b usq)) zp2e false)) in
  let res := c_dtw_expand_wps_slice wps' full0 l1 l2 rb re cb ce ((re - rb) * (ce - cb))%Z ((l1 + 1) * W)%Z
      (c_parts_ldiff l1 l2) (c_parts_ldiffc l1 l2 (c_parts_ldiff l1 l2)) (c_parts_window l1 l2 window) W
      (c_parts_ri1 l1 (c_parts_overlap_left l1 (c_parts_ldiffr l1 l2 (c_parts_ldiff l1 l2)) (c_parts_window l1 l2 window))
                      (c_parts_overlap_right l1 (c_parts_ldiffr l1 l2 (c_parts_ldiff l1 l2)) (c_parts_window l1 l2 window)))
      (c_parts_ri2 l1 (c_parts_overlap_left l1 (c_parts_ldiffr l1 l2 (c_parts_ldiff l1 l2)) (c_parts_window l1 l2 window)))
      (c_parts_ri3 l1 (c_parts_overlap_left l1 (c_parts_ldiffr l1 l2 (c_parts_ldiff l1 l2)) (c_parts_window l1 l2 window))
                      (c_parts_overlap_right l1 (c_parts_ldiffr l1 l2 (c_parts_ldiff l1 l2)) (c_parts_window l1 l2 window))) in
  snd res = true /\ Z.of_nat (List.length (snd (fst res))) = ((re - rb) * (ce - cb))%Z.
Proof.
  intros window p m mld psi Hw usq s1 s2 d Hd1 Hd2 H1 H2 Hp1 Hp2 ce0 shiftf ced1 ced2 wps0 psi_neg idist zp1e zp2e rb re cb ce full0
         l1 l2 W HL Hid Hrb Hre Hcb Hce HLf wps' res.
  destruct (c_fill_then_expand window p m mld psi Hw s1 s2 d Hd1 Hd2 H1 H2 Hp1 Hp2 ce0 shiftf ced1 ced2 wps0 psi_neg idist zp1e zp2e
              rb re cb ce full0 HL Hid Hrb Hre Hcb Hce HLf) as (w & f & E & EE & HLF & _).
  subst res wps' l1 l2 W usq. rewrite E. cbn [fst snd]. rewrite EE. cbn [fst snd]. split; [reflexivity|exact HLF].
Qed.
