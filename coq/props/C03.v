(* C03 -- early abandoning.  Proved: soundness of any pruning that skips only
   cells whose optimum exceeds the bound (prune_sound), hence the returned value
   is exactly "d if d <= m else inf"; and with the Euclidean bound (use_pruning)
   the bound is never below d in the configurations where ED is a valid upper
   bound (C09), so the result is d.
   The sc/ec/ec_next/smaller_found/break bookkeeping of dtw.distance AS WRITTEN
   (PyDist.distp_model, rolling buffer, regenerated index arithmetic) is proved
   exact in.v when there is no begin relaxation; with begin-psi the
   bookkeeping is unsound in the code itself (finding F06, refuted below). *)
From Coq Require Import ZArith List.
From DV Require Import Cost Dtw DtwSpec DtwProps Bounds Prune PyDist PyDistPrune.
Import ListNotations.

Theorem C03_pruning_sound_partial : forall d pen p1b p2b m,
  (forall i j, cle (Fin 0) (d i j)) -> (0 <= pen)%Z ->
  forall P : nat -> nat -> cost,
  (forall j, P 0%nat j = b0 p2b j) -> (forall i, P (S i) 0%nat = b1 p1b (S i)) ->
  (forall i j, P (S i) (S j) = code_cell pen (d i j) (P i j) (P i (S j)) (P (S i) j) \/
               (P (S i) (S j) = Inf /\ ~ cle (Mf d pen p1b p2b (S i) (S j)) m)) ->
  forall i j, cle (Mf d pen p1b p2b i j) (P i j) /\ (cle (Mf d pen p1b p2b i j) m -> P i j = Mf d pen p1b p2b i j).
Proof. exact prune_sound. Qed.

Theorem C03_max_dist_result_partial : forall d pen p1b p2b m,
  (forall i j, cle (Fin 0) (d i j)) -> (0 <= pen)%Z ->
  forall P : nat -> nat -> cost,
  (forall j, P 0%nat j = b0 p2b j) -> (forall i, P (S i) 0%nat = b1 p1b (S i)) ->
  (forall i j, P (S i) (S j) = code_cell pen (d i j) (P i j) (P i (S j)) (P (S i) j) \/
               (P (S i) (S j) = Inf /\ ~ cle (Mf d pen p1b p2b (S i) (S j)) m)) ->
  forall i j, bounded m (P i j) = bounded m (Mf d pen p1b p2b i j).
Proof. exact prune_result. Qed.

(* use_pruning: the Euclidean bound is not below the distance, so bounding by it changes nothing *)
Theorem C03_euclidean_bound_keeps_value : forall u s1 s2,
  (1 <= eff_window u (length s1) (length s2))%Z -> adj_max_step u = Inf ->
  (1 <= length s1)%nat -> (1 <= length s2)%nat ->
  (adj_penalty u = 0%Z \/ length s1 = length s2) ->
  bounded (Fin (ed_model (u_inner u) s1 s2)) (dtw_value u s1 s2) = dtw_value u s1 s2.
Proof.
  intros u s1 s2 Hw Hm H1 H2 Hp. unfold bounded.
  pose proof (dtw_le_ed u s1 s2 Hw Hm H1 H2 Hp) as H. unfold cle in H. rewrite H. reflexivity.
Qed.

(* PrunedDTW exactly as dtw.distance implements it: for EVERY bound B the as-written model returns the unpruned
   specification value if it is <= B and inf otherwise. *)
Theorem C03_pruned_code_model_exact : forall u s1 s2 B,
  (1 <= eff_window u (length s1) (length s2))%Z -> (1 <= length s1)%nat -> (1 <= length s2)%nat ->
  pen_ok u -> (psi_1b u < length s1)%nat \/ (psi_2e u < length s2)%nat ->
  distp_model u s1 s2 B = (if too_long u s1 s2 then Inf else bounded B (dtw_value u s1 s2)).
Proof. exact distp_model_is_bounded_model. Qed.

Definition ex3_u := {| u_window := Some 2%Z; u_penalty := None; u_max_step := None; u_max_length_diff := None;
                       u_psi := ((0, 1), (0, 0))%nat; u_inner := SqEuclid |}.
Definition ex3_s1 : list point := [[0]; [0]; [5]; [0]; [1]]%Z.
Definition ex3_s2 : list point := [[0]; [5]; [0]; [0]; [3]]%Z.
(* the hypotheses are satisfiable, the bound bites (B = 3 < 4 = unbounded value -> inf) and does not (B = 4) *)
Example C03_pruned_nonvacuous :
  dtw_value ex3_u ex3_s1 ex3_s2 = Fin 4 /\ distp_model ex3_u ex3_s1 ex3_s2 (Fin 3) = Inf /\
  distp_model ex3_u ex3_s1 ex3_s2 (Fin 4) = Fin 4.
Proof. vm_compute. repeat split; reflexivity. Qed.

(* begin relaxation: the input on which the bookkeeping before the repair of F06 returned inf *)
Definition ex3_upsi := {| u_window := None; u_penalty := None; u_max_step := None; u_max_length_diff := None;
                          u_psi := ((2, 0), (0, 0))%nat; u_inner := SqEuclid |}.
Example C03_begin_psi_witness :
  distp_model ex3_upsi [[5]; [5]; [0]]%Z [[0]; [0]]%Z (Fin 1) = Fin 0.
Proof. vm_compute. reflexivity. Qed.

(* THE C KERNEL AS WRITTEN (Gen_cdist.v: dtw_distance regenerated whole from dd_dtw.c, with its sc / ec / ec_next /
   smaller_found / break bookkeeping): for EVERY bound - max_dist squared, or the oracle value of
   euclidean_distance_squared with use_pruning - the result is the unpruned specification value cut at that bound,
   never another finite number.  The other three kernels: C02_c_dtw_distance_*_as_written. *)
From DV Require Import Engines Bounds CLang CDistSpec.
From DVGen Require Import Gen_cdist.

Theorem C03_c_kernel_result_is_bounded_value :
  forall (window p m mld : Z) (p1b p1e p2b p2e : nat) (junk : Z -> cost), (0 <= window)%Z -> (0 <= p)%Z ->
  forall (f1 f2 : list Z) (ce ced cub : cost) (idist : Z) (md : cost) (prune : bool),
  (1 <= length f1)%nat -> (1 <= length f2)%nat -> (p1b < length f1 \/ p2e < length f2)%nat -> (idist =? 1)%Z = false ->
  c_dtw_distance ce ced cub junk f1 (Z.of_nat (length f1)) f2 (Z.of_nat (length f2)) idist md mld (Fin m) false (Fin p)
                 (Z.of_nat p1b) (Z.of_nat p1e) (Z.of_nat p2b) (Z.of_nat p2e) prune window =
  ((if too_long (c_to_u (cs_of window p m mld (psi4 p1b p1e p2b p2e) SqEuclid)) (scal f1) (scal f2) then RPlain Inf
    else RSqrt (bounded (c_bound_sq prune ced md)
                  (dtw_value (c_to_u (cs_of window p m mld (psi4 p1b p1e p2b p2e) SqEuclid)) (scal f1) (scal f2)))), true).
Proof. exact c_dtw_distance_spec. Qed.

(* without a bound (max_dist = 0, no pruning) nothing is cut *)
Theorem C03_c_kernel_no_bound_no_cut : forall ced v, bounded (c_bound_sq false ced (Fin 0)) v = v.
Proof. intros ced v. unfold c_bound_sq, bounded. cbn. destruct v; reflexivity. Qed.

(* use_pruning in the C kernel, end to end: the bound is the value euclidean_distance_squared RETURNS (Gen_ced.v,
   regenerated too - no oracle left); where the Euclidean distance is a valid upper bound the kernel returns the
   unpruned specification value. *)
From DV Require Import CEd.
From DVGen Require Import Gen_ced.

Theorem C03_c_use_pruning_keeps_value :
  forall (window p mld : Z) (p1b p1e p2b p2e : nat) (junk : Z -> cost) (f1 f2 : list Z) ce cub idist md,
  (0 <= window)%Z -> (0 <= p)%Z -> (1 <= length f1)%nat -> (1 <= length f2)%nat ->
  (p1b < length f1 \/ p2e < length f2)%nat -> (idist =? 1)%Z = false ->
  (p = 0%Z \/ length f1 = length f2) ->
  let u := c_to_u (cs_of window p 0 mld (psi4 p1b p1e p2b p2e) SqEuclid) in
  c_dtw_distance ce (cret_val (fst (c_euclidean_distance_squared f1 (Z.of_nat (length f1)) f2 (Z.of_nat (length f2))))) cub junk
                 f1 (Z.of_nat (length f1)) f2 (Z.of_nat (length f2)) idist md mld (Fin 0) false (Fin p)
                 (Z.of_nat p1b) (Z.of_nat p1e) (Z.of_nat p2b) (Z.of_nat p2e) true window =
  ((if too_long u (scal f1) (scal f2) then RPlain Inf else RSqrt (dtw_value u (scal f1) (scal f2))), true).
Proof. exact c_dtw_distance_pruned_exact. Qed.

(* dtw.distance AS REGENERATED (Gen_pydist.v, see C01_py_distance_as_written) with a bound B = adj_max_dist (max_dist
   in the internal representation, or the Euclidean bound with use_pruning): the value cut at B, for every B other
   than exactly 0 (dtw.distance tests the truthiness of adj_max_dist before the final comparison). *)
From DV Require Import PyDistGen.
From DVGen Require Import Gen_pydist.

Theorem C03_py_distance_as_written_bounded :
  forall (u : usettings) (s1 s2 : list point) (B : cost) (idist : Z -> Z -> cost) (f1 f2 : list Z) ced mld mld_some,
  (1 <= eff_window u (length s1) (length s2))%Z -> (1 <= length s1)%nat -> (1 <= length s2)%nat ->
  (forall i j, (i < length s1)%nat -> (j < length s2)%nat ->
     idist (Z.of_nat i) (Z.of_nat j) = Fin (pdist (u_inner u) (nth i s1 []) (nth j s2 []))) ->
  pen_ok u -> (psi_1b u < length s1 \/ psi_2e u < length s2)%nat -> B <> Fin 0 ->
  py_distance ced idist f1 (Z.of_nat (length s1)) f2 (Z.of_nat (length s2)) false B mld mld_some (adj_max_step u) (Fin (adj_penalty u))
              (Z.of_nat (psi_1b u)) (Z.of_nat (psi_1e u)) (Z.of_nat (psi_2b u)) (Z.of_nat (psi_2e u))
              (eff_window u (length s1) (length s2)) =
  ((if mld_some && cltb mld (Fin (Z.abs (Z.of_nat (length s1) - Z.of_nat (length s2)))) then RPlain Inf
    else RSqrt (bounded B (dtw_value u s1 s2))), true).
Proof. exact py_distance_spec. Qed.

(* THE PRUNING BOOKKEEPING OF THE C WARPING-PATHS KERNELS IS ONE RULE.  Each of the eight row loops regenerated from
   dd_dtw.c (Gen_cwpsk.v: regions A-D of dtw_warping_paths_ndim and of its Euclidean twin) is, after the head fill and
   apart from the scalars of its region, the SAME row core CWpsKernel.k_wrow_core: forget the pruned start column
   while a path can still start in the zero border (`if (ri <= psi_1b) sc = 0`), skip to it with the shared skip loop,
   run the shared cell loop (CWpsCanon.k_wcell: cell value, `<= max_dist` test, sc / ec_next / smaller_found update,
   break beyond ec) and fill the tail.  A region or a kernel that departs from the rule breaks this theorem. *)
From DV Require Import CWpsCanon CWpsKernel CWpsTie CWpsTieEu.
From DVGen Require Import Gen_cwpsk.
Local Notation cell_sq l1 l2 ndim s1 s2 ri fd fu md ms pen rw rwp wl :=
  (fun ec => k_wcell (wdok l1 l2 ndim s1 s2 (ri * ndim)%Z) (wdfun_sq l1 l2 ndim s1 s2 (ri * ndim)%Z) fd fu ec md ms pen rw rwp wl).
Local Notation cell_eu l1 l2 ndim s1 s2 ri fd fu md ms pen rw rwp wl :=
  (fun ec => k_wcell (wdok l1 l2 ndim s1 s2 (ri * ndim)%Z) (wdfun_eu l1 l2 ndim s1 s2 (ri * ndim)%Z) fd fu ec md ms pen rw rwp wl).

Theorem C03_c_wps_rows_share_one_pruning_core :
  forall (psi_1b l1 l2 ndim : Z) (md ms pen : cost) (pw : Z) (s1 s2 : list Z) (wl : Z),
  (forall min_ci st ri, c_dtw_warping_paths_ndim_loop5 psi_1b l1 l2 min_ci ndim md ms pen pw s1 s2 wl st ri =
     let '(ec, max_ci, ok, rw, rwp, sc, wps) := st in
     k_wrow_core k_wskip (cell_sq l1 l2 ndim s1 s2 ri fdA fuA md ms pen rw rwp wl) k_wfill psi_1b ri min_ci max_ci pw wl rw ec ok sc wps 1%Z
       (fun ec ok sc wps => (ec, (max_ci + 1)%Z, ok, (rw + pw)%Z, rw, sc, wps))) /\
  (forall max_ci min_ci st ri, c_dtw_warping_paths_ndim_loop10 psi_1b l1 l2 max_ci min_ci ndim md ms pen pw s1 s2 wl st ri =
     let '(ec, ok, rw, rwp, sc, wps) := st in
     k_wrow_core k_wskip (cell_sq l1 l2 ndim s1 s2 ri fdA fuA md ms pen rw rwp wl) k_wfill psi_1b ri min_ci max_ci pw wl rw ec ok sc wps 1%Z
       (fun ec ok sc wps => (ec, ok, (rw + pw)%Z, rw, sc, wps))) /\
  (forall st ri, c_dtw_warping_paths_ndim_loop15 psi_1b l1 l2 ndim md ms pen pw s1 s2 wl st ri =
     let '(ec, max_ci, min_ci, ok, rw, rwp, sc, wps) := st in
     k_wrow_core k_wskip (cell_sq l1 l2 ndim s1 s2 ri fdC fuC md ms pen rw rwp wl) k_wfill psi_1b ri min_ci max_ci pw wl rw ec
       (ok && CLang.inb wl rw)%bool sc (CLang.aset wps rw Inf) 1%Z
       (fun ec ok sc wps => (ec, (max_ci + 1)%Z, (min_ci + 1)%Z, ok, (rw + pw)%Z, rw, sc, wps))) /\
  (forall st ri, c_dtw_warping_paths_ndim_loop20 psi_1b l1 l2 ndim md ms pen pw s1 s2 wl st ri =
     let '(ec, min_ci, ok, rw, rwp, sc, wps, wpsi_start) := st in
     let '(ok0, wps0) := fold_left (k_wfill wl) (Prelude.zrange rw (rw + wpsi_start)%Z) (ok, wps) in
     k_wrow_core k_wskip (cell_sq l1 l2 ndim s1 s2 ri fdA fuA md ms pen rw rwp wl) k_wfill psi_1b ri min_ci l2 pw wl rw ec ok0 sc wps0 wpsi_start
       (fun ec ok sc wps => (ec, (min_ci + 1)%Z, ok, (rw + pw)%Z, rw, sc, wps, (wpsi_start + 1)%Z))) /\
  (forall min_ci st ri, c_dtw_warping_paths_ndim_euclidean_loop5 psi_1b l1 l2 min_ci ndim md ms pen pw s1 s2 wl st ri =
     let '(ec, max_ci, ok, rw, rwp, sc, wps) := st in
     k_wrow_core k_wskip (cell_eu l1 l2 ndim s1 s2 ri fdA fuA md ms pen rw rwp wl) k_wfill psi_1b ri min_ci max_ci pw wl rw ec ok sc wps 1%Z
       (fun ec ok sc wps => (ec, (max_ci + 1)%Z, ok, (rw + pw)%Z, rw, sc, wps))) /\
  (forall max_ci min_ci st ri, c_dtw_warping_paths_ndim_euclidean_loop10 psi_1b l1 l2 max_ci min_ci ndim md ms pen pw s1 s2 wl st ri =
     let '(ec, ok, rw, rwp, sc, wps) := st in
     k_wrow_core k_wskip (cell_eu l1 l2 ndim s1 s2 ri fdA fuA md ms pen rw rwp wl) k_wfill psi_1b ri min_ci max_ci pw wl rw ec ok sc wps 1%Z
       (fun ec ok sc wps => (ec, ok, (rw + pw)%Z, rw, sc, wps))) /\
  (forall st ri, c_dtw_warping_paths_ndim_euclidean_loop15 psi_1b l1 l2 ndim md ms pen pw s1 s2 wl st ri =
     let '(ec, max_ci, min_ci, ok, rw, rwp, sc, wps) := st in
     k_wrow_core k_wskip (cell_eu l1 l2 ndim s1 s2 ri fdC fuC md ms pen rw rwp wl) k_wfill psi_1b ri min_ci max_ci pw wl rw ec
       (ok && CLang.inb wl rw)%bool sc (CLang.aset wps rw Inf) 1%Z
       (fun ec ok sc wps => (ec, (max_ci + 1)%Z, (min_ci + 1)%Z, ok, (rw + pw)%Z, rw, sc, wps))) /\
  (forall st ri, c_dtw_warping_paths_ndim_euclidean_loop20 psi_1b l1 l2 ndim md ms pen pw s1 s2 wl st ri =
     let '(ec, min_ci, ok, rw, rwp, sc, wps, wpsi_start) := st in
     let '(ok0, wps0) := fold_left (k_wfill wl) (Prelude.zrange rw (rw + wpsi_start)%Z) (ok, wps) in
     k_wrow_core k_wskip (cell_eu l1 l2 ndim s1 s2 ri fdA fuA md ms pen rw rwp wl) k_wfill psi_1b ri min_ci l2 pw wl rw ec ok0 sc wps0 wpsi_start
       (fun ec ok sc wps => (ec, (min_ci + 1)%Z, ok, (rw + pw)%Z, rw, sc, wps, (wpsi_start + 1)%Z))).
Proof.
  intros psi_1b l1 l2 ndim md ms pen pw s1 s2 wl. repeat split; intros.
  - apply tie_sq_rowA.
  - apply tie_sq_rowB.
  - apply tie_sq_rowC.
  - apply tie_sq_rowD.
  - apply tie_eu_rowA.
  - apply tie_eu_rowB.
  - apply tie_eu_rowC.
  - apply tie_eu_rowD.
Qed.

(* THE C WARPING-PATHS KERNEL AS WRITTEN, UNDER A BOUND.  dtw_warping_paths_ndim regenerated whole (Gen_cwpsk.v), run for
   its value with p.max_dist = B - ANY bound: max_dist in the internal representation, the Euclidean upper bound that
   use_pruning installs (C03_c_wps_use_pruning_is_a_bound), or infinity - with its PrunedDTW bookkeeping (pruned start
   column and its reset while a path can still start in the zero border, skip loop, break beyond the end column of the
   previous row, tail fill from the break cell), the four row regions of the compact layout and the end-of-series scans:
   it returns `v <= B ? v : inf` for the DTW value v of the specification - exactly the unbounded distance whenever
   that is at most B, infinity otherwise, never a different finite number -, every slot of the array holds its cell of
   the specification matrix or, where that cell exceeds B, some value that exceeds B, and every access is in range. *)
From DV Require Import CWpsValue CWpsFinal.
From DVGen Require Import Gen_cwps.

Theorem C03_c_wps_kernel_with_bound_as_written :
  forall (window p m mld : Z) (psi : (nat * nat) * (nat * nat)), (0 <= window)%Z ->
  let usq := c_to_u (cs_of window p m mld psi SqEuclid) in
  forall (s1 s2 : list point) (d : nat),
  (forall q, In q s1 -> length q = d) -> (forall q, In q s2 -> length q = d) ->
  (1 <= length s1)%nat -> (1 <= length s2)%nat ->
  (psi_1b usq <= length s1)%nat -> (psi_2b usq <= length s2)%nat ->
  (0 <= p)%Z -> (psi_1b usq < length s1 \/ psi_2e usq < length s2)%nat ->
  forall (B : cost) ce ced1 ced2 (wps0 : list cost) (keep : bool) idist,
  let l1 := Z.of_nat (length s1) in let l2 := Z.of_nat (length s2) in
  let W := CWps.cw_width l1 l2 window in
  Z.of_nat (length wps0) = ((l1 + 1) * W)%Z -> (idist =? 1)%Z = false ->
  exists wps',
    c_dtw_warping_paths_ndim ce (CWps.cw_shift l1 l2 window) ced1 ced2 wps0 (concat s1) l1 (concat s2) l2 true keep false (Z.of_nat d)
      ((l1 + 1) * W)%Z (c_parts_ldiff l1 l2) (c_parts_ldiffr l1 l2 (c_parts_ldiff l1 l2))
      (c_parts_ldiffc l1 l2 (c_parts_ldiff l1 l2)) (c_parts_window l1 l2 window) W ((l1 + 1) * W)%Z
      (c_parts_ri1 l1 (c_parts_overlap_left l1 (c_parts_ldiffr l1 l2 (c_parts_ldiff l1 l2)) (c_parts_window l1 l2 window))
                      (c_parts_overlap_right l1 (c_parts_ldiffr l1 l2 (c_parts_ldiff l1 l2)) (c_parts_window l1 l2 window)))
      (c_parts_ri2 l1 (c_parts_overlap_left l1 (c_parts_ldiffr l1 l2 (c_parts_ldiff l1 l2)) (c_parts_window l1 l2 window)))
      (c_parts_ri3 l1 (c_parts_overlap_left l1 (c_parts_ldiffr l1 l2 (c_parts_ldiff l1 l2)) (c_parts_window l1 l2 window))
                      (c_parts_overlap_right l1 (c_parts_ldiffr l1 l2 (c_parts_ldiff l1 l2)) (c_parts_window l1 l2 window)))
      (adj_max_step usq) B (Fin (adj_penalty usq)) idist false (Z.of_nat (psi_1b usq)) (Z.of_nat (psi_1e usq))
      (Z.of_nat (psi_2b usq)) (Z.of_nat (psi_2e usq)) false
    = (RPlain (sq_repr keep (bounded B (dtw_value usq s1 s2))), wps', true) /\
    Z.of_nat (length wps') = ((l1 + 1) * W)%Z /\
    forall (i : nat) (s : Z), (Z.of_nat i <= l1)%Z -> (0 <= s < W)%Z ->
      (s + CWps.cw_shift l1 l2 window (Z.of_nat i - 1) <= l2)%Z ->
      ((s + CWps.cw_shift l1 l2 window (Z.of_nat i - 1))%Z = 0%Z -> (Z.of_nat i <= CWps.cw_ri2 l1 l2 window)%Z) ->
      exists v, aget wps' (Z.of_nat i * W + s) = sq_repr keep v /\
                PyDistPrune.Q B v (mget (wps_matrix usq s1 s2) i (Z.to_nat (s + CWps.cw_shift l1 l2 window (Z.of_nat i - 1)))).
Proof.
  intros window p m mld psi Hw usq s1 s2 d Hd1 Hd2 H1 H2 Hp1 Hp2 Hp Hpsi.
  exact (c_wps_kernel_bounded window p m mld psi Hw s1 s2 d Hd1 Hd2 H1 H2 Hp1 Hp2 Hp Hpsi).
Qed.

Theorem C03_c_wps_use_pruning_is_a_bound :
  forall ce shiftf ced1 ced2 wps0 f1 zl1 f2 zl2 rdtw keep pneg nd wlen a1 a2 a3 a4 a5 a6 a7 a8 a9 ms md pn idist zp1b zp1e zp2b zp2e,
  (idist =? 1)%Z = false ->
  c_dtw_warping_paths_ndim ce shiftf ced1 ced2 wps0 f1 zl1 f2 zl2 rdtw keep pneg nd wlen a1 a2 a3 a4 a5 a6 a7 a8 a9 ms md pn idist false zp1b zp1e zp2b zp2e true
  = c_dtw_warping_paths_ndim ce shiftf ced1 ced2 wps0 f1 zl1 f2 zl2 rdtw keep pneg nd wlen a1 a2 a3 a4 a5 a6 a7 a8 a9 ms
      (if (nd =? 1)%Z then ced2 else ced1) pn idist false zp1b zp1e zp2b zp2e false.
Proof. exact c_wps_use_pruning_is_a_bound. Qed.

(* ... and the same for the Euclidean twin dtw_warping_paths_ndim_euclidean (inner_dist = "euclidean"), regenerated whole. *)
Theorem C03_c_wps_euclidean_kernel_with_bound_as_written :
  forall (window p m mld : Z) (psi : (nat * nat) * (nat * nat)), (0 <= window)%Z ->
  let uab := c_to_u (cs_of window p m mld psi AbsDiff) in
  forall (s1 s2 : list point) (d : nat),
  (forall q, In q s1 -> length q = d) -> (forall q, In q s2 -> length q = d) ->
  (1 <= length s1)%nat -> (1 <= length s2)%nat ->
  (psi_1b uab <= length s1)%nat -> (psi_2b uab <= length s2)%nat ->
  (0 <= p)%Z -> (psi_1b uab < length s1 \/ psi_2e uab < length s2)%nat ->
  forall (B : cost) cub1 cub2 (wps0 : list cost) (keep : bool),
  let l1 := Z.of_nat (length s1) in let l2 := Z.of_nat (length s2) in
  let W := CWps.cw_width l1 l2 window in
  Z.of_nat (length wps0) = ((l1 + 1) * W)%Z ->
  exists wps',
    c_dtw_warping_paths_ndim_euclidean (CWps.cw_shift l1 l2 window) cub1 cub2 wps0 (concat s1) l1 (concat s2) l2 true keep false (Z.of_nat d)
      ((l1 + 1) * W)%Z (c_parts_ldiff l1 l2) (c_parts_ldiffr l1 l2 (c_parts_ldiff l1 l2))
      (c_parts_ldiffc l1 l2 (c_parts_ldiff l1 l2)) (c_parts_window l1 l2 window) W
      (c_parts_ri1 l1 (c_parts_overlap_left l1 (c_parts_ldiffr l1 l2 (c_parts_ldiff l1 l2)) (c_parts_window l1 l2 window))
                      (c_parts_overlap_right l1 (c_parts_ldiffr l1 l2 (c_parts_ldiff l1 l2)) (c_parts_window l1 l2 window)))
      (c_parts_ri2 l1 (c_parts_overlap_left l1 (c_parts_ldiffr l1 l2 (c_parts_ldiff l1 l2)) (c_parts_window l1 l2 window)))
      (c_parts_ri3 l1 (c_parts_overlap_left l1 (c_parts_ldiffr l1 l2 (c_parts_ldiff l1 l2)) (c_parts_window l1 l2 window))
                      (c_parts_overlap_right l1 (c_parts_ldiffr l1 l2 (c_parts_ldiff l1 l2)) (c_parts_window l1 l2 window)))
      (adj_max_step uab) B (Fin (adj_penalty uab)) false (Z.of_nat (psi_1b uab)) (Z.of_nat (psi_1e uab))
      (Z.of_nat (psi_2b uab)) (Z.of_nat (psi_2e uab)) false
    = (RPlain (bounded B (dtw_value uab s1 s2)), wps', true) /\
    Z.of_nat (length wps') = ((l1 + 1) * W)%Z /\
    forall (i : nat) (s : Z), (Z.of_nat i <= l1)%Z -> (0 <= s < W)%Z ->
      (s + CWps.cw_shift l1 l2 window (Z.of_nat i - 1) <= l2)%Z ->
      ((s + CWps.cw_shift l1 l2 window (Z.of_nat i - 1))%Z = 0%Z -> (Z.of_nat i <= CWps.cw_ri2 l1 l2 window)%Z) ->
      PyDistPrune.Q B (aget wps' (Z.of_nat i * W + s)) (mget (wps_matrix uab s1 s2) i (Z.to_nat (s + CWps.cw_shift l1 l2 window (Z.of_nat i - 1)))).
Proof.
  intros window p m mld psi Hw uab s1 s2 d Hd1 Hd2 H1 H2 Hp1 Hp2 Hp Hpsi.
  exact (c_wps_eu_kernel_bounded window p m mld psi Hw s1 s2 d Hd1 Hd2 H1 H2 Hp1 Hp2 Hp Hpsi).
Qed.

(* ... and FROM THE SETTINGS STRUCT: `DTWWps p = dtw_wps_parts(l1, l2, settings)` is regenerated whole as well
   (Gen_cparts.v: the decoding 0 = off, the squares for the squared-Euclidean inner distance, the geometry of the
   compact layout); CWpsFinal.c_warping_paths_sq is the kernel called with the members of that struct and with
   dtw_wps_shift(&p, .).  For window, max_dist, max_step, penalty as they stand in the struct: the value returned is
   the specification value cut at max_dist (0 = no bound), the array is the specification matrix up to that bound. *)
From DV Require Import CParts.

Theorem C03_c_warping_paths_from_the_settings_struct :
  forall (window p m mld md : Z) (psi : (nat * nat) * (nat * nat)), (0 <= window)%Z -> (0 <= p)%Z ->
  let usq := c_to_u (cs_of window p m mld psi SqEuclid) in
  forall (s1 s2 : list point) (d : nat),
  (forall q, In q s1 -> length q = d) -> (forall q, In q s2 -> length q = d) ->
  (1 <= length s1)%nat -> (1 <= length s2)%nat ->
  (psi_1b usq <= length s1)%nat -> (psi_2b usq <= length s2)%nat ->
  (psi_1b usq < length s1 \/ psi_2e usq < length s2)%nat ->
  forall ce ced1 ced2 (wps0 : list cost) (keep : bool),
  let l1 := Z.of_nat (length s1) in let l2 := Z.of_nat (length s2) in
  let W := CWps.cw_width l1 l2 window in
  Z.of_nat (length wps0) = ((l1 + 1) * W)%Z ->
  exists wps',
    c_warping_paths_sq ce ced1 ced2 wps0 (concat s1) l1 (concat s2) l2 true keep false (Z.of_nat d) window md m p false
      (Z.of_nat (psi_1b usq)) (Z.of_nat (psi_1e usq)) (Z.of_nat (psi_2b usq)) (Z.of_nat (psi_2e usq)) false
    = (RPlain (sq_repr keep (bounded (c_wps_bound SqEuclid md) (dtw_value usq s1 s2))), wps', true) /\
    Z.of_nat (length wps') = ((l1 + 1) * W)%Z /\
    forall (i : nat) (s : Z), (Z.of_nat i <= l1)%Z -> (0 <= s < W)%Z ->
      (s + CWps.cw_shift l1 l2 window (Z.of_nat i - 1) <= l2)%Z ->
      ((s + CWps.cw_shift l1 l2 window (Z.of_nat i - 1))%Z = 0%Z -> (Z.of_nat i <= CWps.cw_ri2 l1 l2 window)%Z) ->
      exists v, aget wps' (Z.of_nat i * W + s) = sq_repr keep v /\
                PyDistPrune.Q (c_wps_bound SqEuclid md) v (mget (wps_matrix usq s1 s2) i (Z.to_nat (s + CWps.cw_shift l1 l2 window (Z.of_nat i - 1)))).
Proof.
  intros window p m mld md psi Hw Hp usq s1 s2 d Hd1 Hd2 H1 H2 Hp1 Hp2 Hpsi.
  exact (c_warping_paths_sq_spec window p m mld md psi Hw Hp s1 s2 d Hd1 Hd2 H1 H2 Hp1 Hp2 Hpsi).
Qed.
