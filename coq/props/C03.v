(* C03 -- early abandoning.  Proved: soundness of any pruning that skips only
   cells whose optimum exceeds the bound (prune_sound), hence the returned value
   is exactly "d if d <= m else inf"; and with the Euclidean bound (use_pruning)
   the bound is never below d in the configurations where ED is a valid upper
   bound (C09), so the result is d.
   NOT proved (partial): that the sc/ec column bookkeeping of the code skips only
   such cells -- tied by correspondence; it is false with begin-psi (finding F06). *)
From Coq Require Import ZArith List.
From DV Require Import Cost Dtw DtwSpec DtwProps Bounds Prune.

Theorem C03_pruning_sound_partial : forall d pen p1b p2b m,
  (forall i j, cle (Fin 0) (d i j)) -> (0 <= pen)%Z ->
  forall P : nat -> nat -> cost,
  (forall j, P 0%nat j = b0 p2b j) -> (forall i, P (S i) 0%nat = b1 p1b (S i)) ->
  (forall i j, P (S i) (S j) = code_cell pen (d i j) (P i j) (P i (S j)) (P (S i) j) \/
               (P (S i) (S j) = Inf /\ ~ cle (Mf d pen p1b p2b (S i) (S j)) m)) ->
  forall i j, cle (Mf d pen p1b p2b i j) (P i j) /\ (cle (Mf d pen p1b p2b i j) m -> P i j = Mf d pen p1b p2b i j).
Proof. exact prune_sound. Qed.

Theorem C03_max_dist_result_partial : forall d pen p1b p2b m,
  (forall i j, cle (Fin 0) (d i j)) -> (0 <= pen)%Z ->
  forall P : nat -> nat -> cost,
  (forall j, P 0%nat j = b0 p2b j) -> (forall i, P (S i) 0%nat = b1 p1b (S i)) ->
  (forall i j, P (S i) (S j) = code_cell pen (d i j) (P i j) (P i (S j)) (P (S i) j) \/
               (P (S i) (S j) = Inf /\ ~ cle (Mf d pen p1b p2b (S i) (S j)) m)) ->
  forall i j, bounded m (P i j) = bounded m (Mf d pen p1b p2b i j).
Proof. exact prune_result. Qed.

(* use_pruning: the Euclidean bound is not below the distance, so bounding by it changes nothing *)
Theorem C03_euclidean_bound_keeps_value : forall u s1 s2,
  (1 <= eff_window u (length s1) (length s2))%Z -> adj_max_step u = Inf ->
  (1 <= length s1)%nat -> (1 <= length s2)%nat ->
  (adj_penalty u = 0%Z \/ length s1 = length s2) ->
  bounded (Fin (ed_model (u_inner u) s1 s2)) (dtw_value u s1 s2) = dtw_value u s1 s2.
Proof.
  intros u s1 s2 Hw Hm H1 H2 Hp. unfold bounded.
  pose proof (dtw_le_ed u s1 s2 Hw Hm H1 H2 Hp) as H. unfold cle in H. rewrite H. reflexivity.
Qed.
