(* C17 -- Needleman-Wunsch: the returned value is the optimum over all global
   alignments (grid paths; k leading gaps are charged k by the border), and the
   traceback through the recorded arrows realises it for every priority order.
   Note the border: with a custom gap cost g <> 1 the leading gaps are still
   charged 1 each by the code; the theorem is about the code's cost function
   (finding F12 records the discrepancy with "total score"). *)
From Coq Require Import ZArith List.
From DV Require Import Grid NW.

Theorem C17_value_lower_bound : forall sub indel bs i j p v,
  nw_cost sub indel bs i j p = Some v -> (NM sub indel bs i j <= v)%Z.
Proof. exact nw_lower. Qed.

Theorem C17_value_attained : forall sub indel bs i j,
  exists p, nw_cost sub indel bs i j p = Some (NM sub indel bs i j) /\ (length p <= i + j)%nat.
Proof. exact nw_attained. Qed.

Theorem C17_traceback_realises_value : forall sub indel bs order,
  In SD order -> In SU order -> In SL order ->
  forall i j, nw_cost sub indel bs i j (tbo sub indel bs order (i + j) i j) = Some (NM sub indel bs i j).
Proof. intros. apply tbo_cost; auto. Qed.

Theorem C17_traceback_contiguous : forall sub indel bs order,
  In SD order -> In SU order -> In SL order ->
  forall i j, chain (pcells i j (tbo sub indel bs order (i + j) i j)).
Proof.
  intros. eapply pcells_chain. apply tbo_cost; auto.
Qed.
