(* Line-oriented driver around the extracted models.  One request per line,
   whitespace separated integers after the command word; one answer per line. *)
open Model

let rec pos_of_int n = if n = 1 then XH else if n land 1 = 0 then XO (pos_of_int (n lsr 1)) else XI (pos_of_int (n lsr 1))
let z_of_int n = if n = 0 then Z0 else if n > 0 then Zpos (pos_of_int n) else Zneg (pos_of_int (-n))
let rec int_of_pos = function XH -> 1 | XO p -> 2 * int_of_pos p | XI p -> 2 * int_of_pos p + 1
let int_of_z = function Z0 -> 0 | Zpos p -> int_of_pos p | Zneg p -> - (int_of_pos p)
let rec nat_of_int n = if n <= 0 then O else S (nat_of_int (n - 1))
let rec int_of_nat = function O -> 0 | S n -> 1 + int_of_nat n
(* big integers can exceed 63 bits only in absurd cases; print through strings of Z *)
let str_cost = function Inf -> "inf" | Fin z -> string_of_int (int_of_z z)
let opt_z n = if n = -1 then None else Some (z_of_int n)

let toks : string list ref = ref []
let next () = match !toks with [] -> failwith "short line" | t :: r -> toks := r; t
let nint () = int_of_string (next ())
let rec rd_list n f = if n = 0 then [] else let x = f () in x :: rd_list (n - 1) f
let rd_series () =
  let n = nint () in let nd = nint () in
  rd_list n (fun () -> rd_list nd (fun () -> z_of_int (nint ())))
let rd_usettings () =
  let w = opt_z (nint ()) in let p = opt_z (nint ()) in let ms = opt_z (nint ()) in let mld = opt_z (nint ()) in
  let p1b = nat_of_int (nint ()) in let p1e = nat_of_int (nint ()) in
  let p2b = nat_of_int (nint ()) in let p2e = nat_of_int (nint ()) in
  let inner = if nint () = 0 then SqEuclid else AbsDiff in
  { u_window = w; u_penalty = p; u_max_step = ms; u_max_length_diff = mld;
    u_psi = ((p1b, p1e), (p2b, p2e)); u_inner = inner }

let str_row r = String.concat " " (List.map str_cost r)
let str_matrix m = String.concat " ; " (List.map str_row m)

let handle cmd =
  match cmd with
  | "dtw" -> let u = rd_usettings () in let s1 = rd_series () in let s2 = rd_series () in
    str_cost (dtw_model u s1 s2)
  | "pydist" -> let u = rd_usettings () in let s1 = rd_series () in let s2 = rd_series () in
    str_cost (dist_model u s1 s2)
  | "pydistp" -> let b = nint () in let u = rd_usettings () in let s1 = rd_series () in let s2 = rd_series () in
    str_cost (distp_model u s1 s2 (if b < 0 then Inf else Fin (z_of_int b)))
  | "kbest" -> let n = nint () in
    let slots = rd_list n (fun () -> let v = nint () in if v = -1 then InfV else if v = -2 then MaxV else V (z_of_int v)) in
    let begs = rd_list n (fun () -> nat_of_int (nint ())) in
    let overlap = nat_of_int (nint ()) in let minlength = nat_of_int (nint ()) in
    let mx = nint () in let maxlength = if mx < 0 then None else Some (nat_of_int mx) in
    let maxinf = nint () = 1 in
    let kk = nint () in let k = if kk < 0 then None else Some (nat_of_int kk) in
    let beg e = (match List.nth_opt begs (int_of_nat e) with Some b -> b | None -> e) in
    String.concat " " (List.map (fun ((b, e), _) -> string_of_int (int_of_nat b) ^ "," ^ string_of_int (int_of_nat e))
                         (kbest beg overlap minlength maxlength maxinf k slots))
  | "pywps" -> let b = nint () in let fc = nint () = 1 in
    let u = rd_usettings () in let s1 = rd_series () in let s2 = rd_series () in
    (match wps_code_model u s1 s2 (if b < 0 then Inf else Fin (z_of_int b)) fc with
     | None -> "none"
     | Some (d, m) -> str_cost d ^ " | " ^ str_matrix m)
  | "wpath" -> let u = rd_usettings () in let s1 = rd_series () in let s2 = rd_series () in
    let ((i, j), p) = warping_path_model u s1 s2 in
    string_of_int (int_of_nat i) ^ "," ^ string_of_int (int_of_nat j) ^ " | " ^
    String.concat " " (List.map (fun (a, b) -> string_of_int (int_of_nat a) ^ "," ^ string_of_int (int_of_nat b)) p)
  | "marks" -> let u = rd_usettings () in let s1 = rd_series () in let s2 = rd_series () in
    String.concat " " (List.map (fun (a, b) -> string_of_int (int_of_nat a) ^ "," ^ string_of_int (int_of_nat b)) (marks_model u s1 s2))
  | "ccompact" -> let u = rd_usettings () in let s1 = rd_series () in let s2 = rd_series () in
    str_matrix (c_compact_model u s1 s2)
  | "wps" -> let u = rd_usettings () in let s1 = rd_series () in let s2 = rd_series () in
    str_matrix (wps_matrix u s1 s2)
  | "bp" -> let u = rd_usettings () in let s1 = rd_series () in let s2 = rd_series () in
    let i = nint () in let j = nint () in
    let m = wps_matrix u s1 s2 in
    let p = best_path_model m (adj_penalty u) (nat_of_int i) (nat_of_int j) in
    String.concat " " (List.map (fun (a, b) -> string_of_int (int_of_nat a) ^ "," ^ string_of_int (int_of_nat b)) p)
  | "pairs" -> let n = z_of_int (nint ()) in let some = nint () = 1 in
    let rb = z_of_int (nint ()) in let re = z_of_int (nint ()) in let cb = z_of_int (nint ()) in
    let ce = z_of_int (nint ()) in let notriu = nint () = 1 in
    let blk = { b_some = some; b_rows = (rb, re); b_cols = (cb, ce); b_notriu = notriu } in
    string_of_int (int_of_z (gen_length n blk)) ^ " | " ^
    String.concat " " (List.map (fun (a, b) -> string_of_int (int_of_z a) ^ "," ^ string_of_int (int_of_z b)) (pairs n blk))
  | "cidx" -> let a = z_of_int (nint ()) in let b = z_of_int (nint ()) in let n = z_of_int (nint ()) in
    (match py_distance_array_index a b n with None -> "none" | Some z -> string_of_int (int_of_z z))
  | "nw" -> let n = nint () in let m = nint () in
    let sub = Array.init n (fun _ -> Array.init m (fun _ -> z_of_int (nint ()))) in
    let ind = Array.init n (fun _ -> Array.init m (fun _ -> z_of_int (nint ()))) in
    let get a i j = let i = int_of_nat i and j = int_of_nat j in if i < n && j < m then a.(i).(j) else Z0 in
    let o0 = nint () in let o1 = nint () in let o2 = nint () in let bs = z_of_int (nint ()) in
    let st k = if k = 0 then SD else if k = 1 then SU else SL in
    let rows = List.init (n + 1) (fun i -> String.concat " " (List.init (m + 1) (fun j ->
      string_of_int (int_of_z (nM (get sub) (get ind) bs (nat_of_int i) (nat_of_int j)))))) in
    let p = tbo (get sub) (get ind) bs [st o0; st o1; st o2] (nat_of_int (n + m)) (nat_of_int n) (nat_of_int m) in
    String.concat " ; " rows ^ " | " ^ String.concat "" (List.map (function SD -> "D" | SU -> "U" | SL -> "L") p)
  | "knn" -> let k = nat_of_int (nint ()) in let use_lb = nint () = 1 in
    let md = nint () in let maxd = if md < 0 then Inf else Fin (z_of_int md) in
    let n = nint () in
    let cands = rd_list n (fun () -> let lb = z_of_int (nint ()) in let d = z_of_int (nint ()) in (lb, d)) in
    String.concat " " (List.map (fun z -> string_of_int (int_of_z z)) (search k use_lb maxd cands))
  | "hfit" -> let n = nint () in let md = z_of_int (nint ()) in let ne = nint () in
    let es = rd_list ne (fun () -> let r = nat_of_int (nint ()) in let c = nat_of_int (nint ()) in
                                     let d = z_of_int (nint ()) in { er = r; ec = c; ed = d }) in
    let ms = fit_model (nat_of_int n) md es in
    let cs = clusters_model (nat_of_int n) (List.map (fun m -> (m.m_into, m.m_from)) ms) in
    String.concat " " (List.map (fun m -> string_of_int (int_of_nat m.m_into) ^ "," ^ string_of_int (int_of_nat m.m_from)
                                           ^ "," ^ string_of_int (int_of_z m.m_dist)) ms)
    ^ " | " ^
    String.concat " " (List.map (fun (k, s) -> string_of_int (int_of_nat k) ^ ":" ^
                                   String.concat "," (List.map (fun x -> string_of_int (int_of_nat x)) s)) cs)
  | "ed" -> let inner = if nint () = 0 then SqEuclid else AbsDiff in
    let s1 = rd_series () in let s2 = rd_series () in
    string_of_int (int_of_z (ed_model inner s1 s2))
  | "lbk" -> let inner = if nint () = 0 then SqEuclid else AbsDiff in let w = opt_z (nint ()) in
    let n1 = nint () in let s1 = rd_list n1 (fun () -> z_of_int (nint ())) in
    let n2 = nint () in let s2 = rd_list n2 (fun () -> z_of_int (nint ())) in
    string_of_int (int_of_z (lb_keogh_model inner w s1 s2))
  | "ckern" ->
    (* the four dtw_distance* kernels as regenerated from dd_dtw.c (Gen_cdist.v) *)
    let variant = nint () in
    let window = z_of_int (nint ()) in
    let max_dist = Fin (z_of_int (nint ())) in let max_step = Fin (z_of_int (nint ())) in
    let mld = z_of_int (nint ()) in let penalty = Fin (z_of_int (nint ())) in
    let p1b = z_of_int (nint ()) in let p1e = z_of_int (nint ()) in
    let p2b = z_of_int (nint ()) in let p2e = z_of_int (nint ()) in
    let use_pruning = nint () = 1 in let only_ub = nint () = 1 in
    let inner_dist = z_of_int (nint ()) in
    let nd = nint () in
    let l1 = nint () in let f1 = rd_list (l1 * nd) (fun () -> z_of_int (nint ())) in
    let l2 = nint () in let f2 = rd_list (l2 * nd) (fun () -> z_of_int (nint ())) in
    let rec chunk l = if l = [] then [] else
        let rec take k l = if k = 0 then ([], l) else (match l with [] -> ([], []) | x :: r -> let (a, b) = take (k - 1) r in (x :: a, b)) in
        let (a, b) = take nd l in a :: chunk b in
    let pts1 = chunk f1 and pts2 = chunk f2 in
    let junk k = Fin (Z.add (z_of_int 777) k) in
    let zl1 = z_of_int l1 and zl2 = z_of_int l2 and znd = z_of_int nd in
    (* the values of the C functions the kernels call: the regenerated Euclidean routines themselves (Gen_ced.v) *)
    let cval r = (match fst r with RPlain v -> v | RSqrt v -> v) in
    let ub_abs = if nd = 1 then cval (c_euclidean_distance_euclidean f1 zl1 f2 zl2) else cval (c_euclidean_distance_ndim_euclidean f1 zl1 f2 zl2 znd)
    and ub_sq = if nd = 1 then cval (c_euclidean_distance_squared f1 zl1 f2 zl2) else cval (c_euclidean_distance_ndim_squared f1 zl1 f2 zl2 znd) in
    let _ = pts1 and _ = pts2 in
    let eu () = if variant land 1 = 0
      then c_dtw_distance_euclidean ub_abs junk f1 zl1 f2 zl2 max_dist mld max_step only_ub penalty p1b p1e p2b p2e use_pruning window
      else c_dtw_distance_ndim_euclidean ub_abs junk f1 zl1 f2 zl2 znd max_dist mld max_step only_ub penalty p1b p1e p2b p2e use_pruning window in
    let (r, ok) =
      if variant >= 2 then eu ()
      else begin
        let sub = (match fst (eu ()) with RPlain v -> v | RSqrt v -> v) in
        if variant = 0
        then c_dtw_distance sub ub_sq ub_sq junk f1 zl1 f2 zl2 inner_dist max_dist mld max_step only_ub penalty p1b p1e p2b p2e use_pruning window
        else c_dtw_distance_ndim sub ub_sq ub_sq junk f1 zl1 f2 zl2 znd inner_dist max_dist mld max_step only_ub penalty p1b p1e p2b p2e use_pruning window
      end in
    (match r with RSqrt v -> "sqrt " ^ str_cost v | RPlain v -> "plain " ^ str_cost v) ^ (if ok then " ok" else " OUT-OF-BOUNDS")
  | "pygen" ->
    (* dtw.distance as regenerated from dtw.py (Gen_pydist.v); b < 0: no bound *)
    let b = nint () in let u = rd_usettings () in let s1 = rd_series () in let s2 = rd_series () in
    let a1 = Array.of_list s1 and a2 = Array.of_list s2 in
    let r = Array.length a1 and c = Array.length a2 in
    let idist i j = let i = int_of_z i and j = int_of_z j in
      if i >= 0 && i < r && j >= 0 && j < c then Fin (pdist u.u_inner a1.(i) a2.(j)) else Inf in
    let (mld, mld_some) = (match u.u_max_length_diff with None -> (Inf, true) | Some m -> (Fin m, true)) in
    let ((p1b, p1e), (p2b, p2e)) = u.u_psi in
    let zn n = z_of_int (int_of_nat n) in
    let (res, ok) = py_distance Inf idist [] (z_of_int r) [] (z_of_int c) false (if b < 0 then Inf else Fin (z_of_int b)) mld mld_some
                      (adj_max_step u) (Fin (adj_penalty u)) (zn p1b) (zn p1e) (zn p2b) (zn p2e)
                      (eff_window u (nat_of_int r) (nat_of_int c)) in
    (match res with RSqrt v -> "sqrt " ^ str_cost v | RPlain v -> "plain " ^ str_cost v) ^ (if ok then " ok" else " OUT-OF-BOUNDS")
  | "pywpsgen" ->
    (* the fill part of dtw.warping_paths as regenerated from dtw.py (Gen_pywps.v); b < 0: no bound *)
    let b = nint () in let u = rd_usettings () in let s1 = rd_series () in let s2 = rd_series () in
    let a1 = Array.of_list s1 and a2 = Array.of_list s2 in
    let r = Array.length a1 and c = Array.length a2 in
    let idist i j = let i = int_of_z i and j = int_of_z j in
      if i >= 0 && i < r && j >= 0 && j < c then Fin (pdist u.u_inner a1.(i) a2.(j)) else Inf in
    let (mld, mld_some) = (match u.u_max_length_diff with None -> (Inf, true) | Some m -> (Fin m, true)) in
    let ((p1b, p1e), (p2b, p2e)) = u.u_psi in
    let zn n = z_of_int (int_of_nat n) in
    let (res, ok) = py_wps_fill idist [] (z_of_int r) [] (z_of_int c) (if b < 0 then Inf else Fin (z_of_int b)) mld mld_some
                      (adj_max_step u) true (Fin (adj_penalty u)) (zn p1b) (zn p1e) (zn p2b) (zn p2e)
                      (eff_window u (nat_of_int r) (nat_of_int c)) in
    (match res with
     | None -> "none"
     | Some flat ->
       let rec rows l = if l = [] then [] else
         let rec take k l = if k = 0 then ([], l) else (match l with [] -> ([], []) | x :: t -> let (a, b) = take (k - 1) t in (x :: a, b)) in
         let (a, b) = take (c + 1) l in a :: rows b in
       str_matrix (rows flat)) ^ (if ok then " | ok" else " | OUT-OF-BOUNDS")
  | "cwpsk" ->
    (* the kernels that fill the compact warping-paths array, as regenerated from dd_dtw.c (Gen_cwpsk.v); the struct
       members are computed with the regenerated pieces of dtw_wps_parts (Gen_cwps.v), thresholds decoded as it does *)
    let variant = nint () in
    let window0 = z_of_int (nint ()) in
    let md = nint () in let ms = nint () in let pen = nint () in
    let p1b = z_of_int (nint ()) in let p1e = z_of_int (nint ()) in
    let p2b = z_of_int (nint ()) in let p2e = z_of_int (nint ()) in
    let use_pruning = nint () = 1 in let only_ub = nint () = 1 in
    let return_dtw = nint () = 1 in let keep_int_repr = nint () = 1 in let psi_neg = nint () = 1 in
    let nd = nint () in
    let l1 = nint () in let f1 = rd_list (l1 * nd) (fun () -> z_of_int (nint ())) in
    let l2 = nint () in let f2 = rd_list (l2 * nd) (fun () -> z_of_int (nint ())) in
    let zl1 = z_of_int l1 and zl2 = z_of_int l2 and znd = z_of_int nd in
    let sq x = z_of_int (x * x) in
    let dec x = if x = 0 then Inf else Fin (if variant = 0 then sq x else z_of_int x) in
    let p_max_step = dec ms and p_max_dist = dec md in
    let p_penalty = Fin (if variant = 0 then sq pen else z_of_int pen) in
    let ldiff = c_parts_ldiff zl1 zl2 in
    let ldiffr = c_parts_ldiffr zl1 zl2 ldiff and ldiffc = c_parts_ldiffc zl1 zl2 ldiff in
    let window = c_parts_window zl1 zl2 window0 in
    let width = c_parts_width zl2 ldiff window0 window in
    let ol = c_parts_overlap_left zl1 ldiffr window and orr = c_parts_overlap_right zl1 ldiffr window in
    let ri1 = c_parts_ri1 zl1 ol orr and ri2 = c_parts_ri2 zl1 ol and ri3 = c_parts_ri3 zl1 ol orr in
    let length = Z.mul (Z.add zl1 (z_of_int 1)) width in
    let shift ri = c_wps_shift ri ri2 ri3 in
    let cval r = (match fst r with RPlain v -> v | RSqrt v -> v) in
    let ub_abs = if nd = 1 then cval (c_euclidean_distance_euclidean f1 zl1 f2 zl2) else cval (c_euclidean_distance_ndim_euclidean f1 zl1 f2 zl2 znd)
    and ub_sq1 = (if nd = 1 then cval (c_euclidean_distance_squared f1 zl1 f2 zl2) else Inf)
    and ub_sqn = cval (c_euclidean_distance_ndim_squared f1 zl1 f2 zl2 znd) in
    let wps0 = List.init (int_of_z length) (fun _ -> Fin (z_of_int 777)) in
    let ((r, wps), ok) =
      if variant = 0 then
        c_dtw_warping_paths_ndim Inf shift ub_sqn ub_sq1 wps0 f1 zl1 f2 zl2 return_dtw keep_int_repr psi_neg znd length
          ldiff ldiffr ldiffc window width length ri1 ri2 ri3 p_max_step p_max_dist p_penalty Z0 only_ub p1b p1e p2b p2e use_pruning
      else
        c_dtw_warping_paths_ndim_euclidean shift ub_abs ub_abs wps0 f1 zl1 f2 zl2 return_dtw keep_int_repr psi_neg znd length
          ldiff ldiffr ldiffc window width ri1 ri2 ri3 p_max_step p_max_dist p_penalty only_ub p1b p1e p2b p2e use_pruning in
    (* optionally: a block of the full matrix expanded from that compact array by the regenerated dtw_expand_wps_slice
       (Gen_cexpw.v) into a block pre-filled with 555 *)
    let nsl = nint () in
    let slices = rd_list nsl (fun () -> let rb = nint () in let re = nint () in let cb = nint () in let ce = nint () in (rb, re, cb, ce)) in
    let exps = List.map (fun (rb, re, cb, ce) ->
      let flen = z_of_int ((re - rb) * (ce - cb)) in
      let full0 = List.init ((re - rb) * (ce - cb)) (fun _ -> Fin (z_of_int 555)) in
      let ((_, full), ok2) = c_dtw_expand_wps_slice wps full0 zl1 zl2 (z_of_int rb) (z_of_int re) (z_of_int cb) (z_of_int ce)
                               flen length ldiff ldiffc window width ri1 ri2 ri3 in
      " | " ^ str_row full ^ (if ok2 then " | ok" else " | OUT-OF-BOUNDS")) slices in
    (match r with RSqrt v -> "sqrt " ^ str_cost v | RPlain v -> "plain " ^ str_cost v) ^ " | " ^ str_row wps ^ (if ok then " | ok" else " | OUT-OF-BOUNDS")
    ^ String.concat "" exps
  | "ced" ->
    (* the Euclidean routines of dd_ed.c as regenerated (Gen_ced.v) *)
    let variant = nint () in let nd = nint () in
    let l1 = nint () in let f1 = rd_list (l1 * nd) (fun () -> z_of_int (nint ())) in
    let l2 = nint () in let f2 = rd_list (l2 * nd) (fun () -> z_of_int (nint ())) in
    let zl1 = z_of_int l1 and zl2 = z_of_int l2 and znd = z_of_int nd in
    let (r, ok) = (match variant with
      | 0 -> c_euclidean_distance_squared f1 zl1 f2 zl2
      | 1 -> c_euclidean_distance_euclidean f1 zl1 f2 zl2
      | 2 -> c_euclidean_distance_ndim_squared f1 zl1 f2 zl2 znd
      | _ -> c_euclidean_distance_ndim_euclidean f1 zl1 f2 zl2 znd) in
    (match r with RSqrt v -> "sqrt " ^ str_cost v | RPlain v -> "plain " ^ str_cost v) ^ (if ok then " ok" else " OUT-OF-BOUNDS")
  | _ -> failwith ("unknown command " ^ cmd)

let () =
  try
    while true do
      let line = input_line stdin in
      toks := List.filter (fun s -> s <> "") (String.split_on_char ' ' (String.trim line));
      (match !toks with
       | [] -> print_endline ""
       | cmd :: rest -> toks := rest;
         (try print_endline (handle cmd) with Failure m -> print_endline ("ERR " ^ m) | Stack_overflow -> print_endline "ERR stack"));
    done
  with End_of_file -> ()
