(* Extraction of the executable models for the correspondence check.
   Only ExtrOcamlBasic is used: Z, positive and nat stay the extracted inductives. *)
From Coq Require Extraction.
From Coq Require Import ExtrOcamlBasic.
From DV Require Import Prelude Cost Grid Dtw DtwSpec Bounds Traceback Matrix NW Search Cluster ClusterPart PyDist PyWps KBest RelaxedEndSpec CFillTrace CLang.
From DVGen Require Import Gen_matrix Gen_cdist Gen_ced Gen_pydist Gen_pywps Gen_cwps Gen_cwpsk Gen_cexpw.
Extraction Language OCaml.
Extraction "model.ml" dtw_model wps_matrix ed_model lb_keogh_model best_path_model adj_penalty pairs gen_length py_distance_array_index NM tbo search fit_model dist_model distp_model wps_code_model kbest clusters_model warping_path_model marks_model c_compact_model c_dtw_distance c_dtw_distance_ndim c_dtw_distance_euclidean c_dtw_distance_ndim_euclidean c_euclidean_distance_squared c_euclidean_distance_euclidean c_euclidean_distance_ndim_squared c_euclidean_distance_ndim_euclidean py_distance py_wps_fill c_dtw_warping_paths_ndim c_dtw_warping_paths_ndim_euclidean c_dtw_expand_wps_slice c_parts_ldiff c_parts_ldiffr c_parts_ldiffc c_parts_window c_parts_width c_parts_overlap_left c_parts_overlap_right c_parts_ri1 c_parts_ri2 c_parts_ri3 c_wps_shift adj_max_step eff_window pdist.
